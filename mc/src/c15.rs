//! C15 — changing the data model never loses data and a refused change changes nothing.
//!
//! E-STATE over sequences of model versions. A state is (accepted version sequence, rows written
//! under every version). Alphabet = `c15_model::alphabet` (every edit operator at every applicable
//! position of the current version). Every transition is judged
//!  * in the light world (real `DataModel` + real mutation/query pipeline of `LPeer`), applied K times to
//!    freshly deserialised copies of the current model (fresh hash maps = fresh iteration orders, which is
//!    exactly what the service does: it reloads the stored model before every update),
//!  * in two fresh worker processes per partition (`--xproc`), whose outcome sets are compared,
//!  * in the full world (`update_data_model` = run-time path, `restart(model)` = start-up path) for every
//!    transition of depth 1 and a stratified subset of depth 2.
//! Oracle: differential. Values read under the version a row was written with are the reference.
use crate::c15_model::*;
use crate::common::*;
use crate::light::LPeer;
use crate::world::*;
use discret::verif::database::query_language::data_model_parser::DataModel;
use discret::verif::database::query_language::parameter::{Parameters, ParametersAdd};
use discret::verif_hooks;
use serde_json::{json, Map, Value};
use std::collections::{BTreeMap, BTreeSet};
use std::path::PathBuf;
use std::time::Instant;

/// applications of one version to fresh copies of the current model
const K_TRIALS: usize = 24;
/// hard cap when looking for the outcome that continues the exploration
const TRIAL_CAP: usize = 600;
/// retries in the full world to exhibit an order dependent outcome the light world has seen
const FULL_RETRIES: usize = 40;
/// partitions of the cross process comparison (each runs in two fresh processes)
const XPROC_PARTS: usize = 4;
const XPROC_TRIALS: usize = 12;

// ------------------------------------------------------------------------------------------------
// canonical form of a model, differences, identifiers
// ------------------------------------------------------------------------------------------------

fn canon(m: &DataModel) -> Value {
    // serde_json's map is a BTreeMap: key order is canonical
    serde_json::to_value(m).expect("serialise model")
}

fn diff(a: &Value, b: &Value, path: &mut Vec<String>, out: &mut Vec<(Vec<String>, &'static str)>) {
    match (a, b) {
        (Value::Object(x), Value::Object(y)) => {
            for (k, va) in x {
                path.push(k.clone());
                match y.get(k) {
                    Some(vb) => diff(va, vb, path, out),
                    None => out.push((path.clone(), "removed")),
                }
                path.pop();
            }
            for k in y.keys() {
                if !x.contains_key(k) {
                    path.push(k.clone());
                    out.push((path.clone(), "added"));
                    path.pop();
                }
            }
        }
        _ => {
            if a != b {
                out.push((path.clone(), "changed"));
            }
        }
    }
}

/// name free class of a difference between two serialised models
fn diff_class(path: &[String], how: &str) -> String {
    let p: Vec<&str> = path.iter().map(|s| s.as_str()).collect();
    match p.as_slice() {
        ["model"] => "model-text".into(),
        ["namespace_ids", ..] => format!("namespace-id.{}", how),
        ["entities_short", ..] => format!("entities-short.{}", how),
        ["namespaces", _] => format!("namespace.{}", how),
        ["namespaces", _, _] => format!("entity.{}", how),
        ["namespaces", _, _, "fields", _] => format!("field.{}", how),
        ["namespaces", _, _, "fields", _, attr, ..] => format!("field.{}", attr),
        ["namespaces", _, _, "indexes", ..] => "indexes".into(),
        ["namespaces", _, _, "indexes_to_remove", ..] => "indexes_to_remove".into(),
        ["namespaces", _, _, attr, ..] => format!("entity.{}", attr),
        _ => format!("other.{}", how),
    }
}

fn diff_classes(a: &Value, b: &Value) -> Vec<String> {
    let mut d = vec![];
    diff(a, b, &mut vec![], &mut d);
    let mut set = BTreeSet::new();
    for (p, how) in d {
        set.insert(diff_class(&p, how));
    }
    set.into_iter().collect()
}

/// storage identifiers of a serialised model: ("E:<entity>" | "F:<entity>:<field>") -> identifier,
/// plus the list of collisions / inconsistencies
fn identifiers(v: &Value) -> (BTreeMap<String, String>, Vec<String>) {
    let mut ids = BTreeMap::new();
    let mut problems = vec![];
    let mut ent_shorts: BTreeMap<String, String> = BTreeMap::new();
    let empty = Map::new();
    let nss = v["namespaces"].as_object().unwrap_or(&empty);
    let mut ns_ids: BTreeMap<String, String> = BTreeMap::new();
    for (ns, id) in v["namespace_ids"].as_object().unwrap_or(&empty) {
        if let Some(o) = ns_ids.insert(id.to_string(), ns.clone()) {
            problems.push(format!("namespace:{}/{}", o, ns));
        }
    }
    for (ns, ents) in nss {
        for (en, e) in ents.as_object().unwrap_or(&empty) {
            let short = e["short_name"].as_str().unwrap_or("?").to_string();
            ids.insert(format!("E:{}", en), short.clone());
            if let Some(o) = ent_shorts.insert(short.clone(), en.clone()) {
                problems.push(format!("entity:{}/{}", o, en));
            }
            let back = &v["entities_short"][&short];
            if back[0].as_str() != Some(ns.as_str()) || back[1].as_str() != Some(en.as_str()) {
                problems.push(format!("entity-reverse-map:{}", en));
            }
            let mut fshorts: BTreeMap<String, String> = BTreeMap::new();
            for (fname, f) in e["fields"].as_object().unwrap_or(&empty) {
                let fs = f["short_name"].as_str().unwrap_or("?").to_string();
                ids.insert(format!("F:{}:{}", en, fname), fs.clone());
                if let Some(o) = fshorts.insert(fs, fname.clone()) {
                    problems.push(format!("field:{}:{}/{}", en, o, fname));
                }
            }
        }
    }
    (ids, problems)
}

/// the identifiers follow the positions of the version text (the assignment a fresh instance computes)
fn positional(v: &Value, ast: &Model) -> bool {
    for (ni, ns) in ast.nss.iter().enumerate() {
        for (ei, e) in ns.ents.iter().enumerate() {
            let full = full_name(&ns.name, &e.name);
            let ev = &v["namespaces"][&ns.name][&full];
            let exp = if ns.name.is_empty() { format!("{}", ei) } else { format!("{}.{}", ni + 1, ei) };
            if ev["short_name"].as_str() != Some(exp.as_str()) {
                return false;
            }
            for (fi, f) in e.fields.iter().enumerate() {
                if ev["fields"][&f.name]["short_name"].as_str() != Some((32 + fi).to_string().as_str()) {
                    return false;
                }
            }
        }
    }
    true
}

fn err_class(msg: &str) -> String {
    let table = [
        ("was expected in position", "InvalidOrdering"),
        ("is missing in the new data model", "MissingItem"),
        ("needs a default value", "MissingDefaultValue"),
        ("change the field type", "CannotUpdateFieldType"),
        ("does not exists", "NotFound"),
        ("reserved", "Reserved"),
        ("allready defined", "Duplicated"),
        ("conflicting with a system field", "SystemFieldConflict"),
        ("default value is a", "InvalidDefaultValue"),
        ("does not exist", "NotFound"),
        ("expected", "Parser"),
    ];
    for (k, c) in table {
        if msg.contains(k) {
            return c.to_string();
        }
    }
    let s: String = msg
        .chars()
        .filter(|c| c.is_ascii_alphabetic() || *c == ' ')
        .collect::<String>()
        .split_whitespace()
        .take(4)
        .collect::<Vec<_>>()
        .join("-");
    s
}

// ------------------------------------------------------------------------------------------------
// rows: what is written under every version and how it is read back (shared by both worlds)
// ------------------------------------------------------------------------------------------------

#[derive(Clone, Debug)]
enum Pv {
    I(i64),
    S(String),
    B(bool),
    F(f64),
}

fn to_params(list: &[(String, Pv)]) -> Parameters {
    let mut p = Parameters::default();
    for (k, v) in list {
        match v {
            Pv::I(i) => p.add(k, *i).unwrap(),
            Pv::S(s) => p.add(k, s.clone()).unwrap(),
            Pv::B(b) => p.add(k, *b).unwrap(),
            Pv::F(f) => p.add(k, *f).unwrap(),
        }
    }
    p
}

fn value_for(ty: &Ty, ent: &str, field: &str, ver: usize) -> Option<Pv> {
    Some(match ty {
        Ty::Int => Pv::I(100 * (ver as i64 + 1) + field.len() as i64),
        Ty::Str => Pv::S(format!("{} {} v{}", ent, field, ver)),
        Ty::Bool => Pv::B(ver % 2 == 0),
        Ty::Float => Pv::F(0.5 + ver as f64),
        Ty::B64 => Pv::S(b64(format!("{}{}", field, ver).as_bytes())),
        Ty::Json => Pv::S(format!("{{\"k\":[{},\"{}\"]}}", ver, field)),
        Ty::Ref(_) | Ty::Arr(_) => return None,
    })
}

#[derive(Clone, Debug)]
struct MutPlan {
    entity: String,
    text: String,
    params: Vec<(String, Pv)>,
    full: bool,
}

/// creation of one complete row (every scalar field given) and one sparse row (only what is required)
fn creation_plans(ast: &Model, ver: usize) -> Vec<MutPlan> {
    let mut plans = vec![];
    for (ni, ei, full) in ast.entities() {
        let e = &ast.nss[ni].ents[ei];
        for complete in [true, false] {
            let mut text = format!("mutate {{ {} {{ ", full);
            let mut params = vec![];
            for f in &e.fields {
                if f.ty.is_ref() {
                    continue;
                }
                let required = !f.nullable && f.default.is_none();
                if complete || required {
                    let p = format!("p{}", params.len());
                    text.push_str(&format!("{}:${} ", f.name, p));
                    params.push((p, value_for(&f.ty, &full, &f.name, ver + if complete { 0 } else { 50 }).unwrap()));
                }
            }
            text.push_str("} }");
            plans.push(MutPlan { entity: full.clone(), text, params, full: complete });
        }
    }
    plans
}

#[derive(Clone, Debug)]
struct RowRec {
    entity: String,
    id: String,
    full: bool,
    /// name -> (is reference, value read right after the row was written, under its own version)
    baseline: BTreeMap<String, (bool, Value)>,
}

/// second pass: point the reference fields of the complete rows written under `ver` to existing rows
fn reference_plans(ast: &Model, rows: &[RowRec], fresh: &[usize]) -> Vec<MutPlan> {
    let mut plans = vec![];
    for &ri in fresh {
        let r = &rows[ri];
        if !r.full {
            continue;
        }
        let Some(e) = ast.entity(&r.entity) else { continue };
        let mut text = format!("mutate {{ {} {{ id:$id ", r.entity);
        let mut params = vec![("id".to_string(), Pv::S(r.id.clone()))];
        let mut any = false;
        for f in &e.fields {
            let target = match &f.ty {
                Ty::Ref(t) | Ty::Arr(t) => t,
                _ => continue,
            };
            // the first complete row of the target entity that is not the row itself
            let Some(t) = rows.iter().find(|x| &x.entity == target && x.full && x.id != r.id) else { continue };
            let p = format!("t{}", params.len());
            match &f.ty {
                Ty::Ref(_) => text.push_str(&format!("{}:{{id:${}}} ", f.name, p)),
                _ => text.push_str(&format!("{}:[{{id:${}}}] ", f.name, p)),
            }
            params.push((p, Pv::S(t.id.clone())));
            any = true;
        }
        text.push_str("} }");
        if any {
            plans.push(MutPlan { entity: r.entity.clone(), text, params, full: true });
        }
    }
    plans
}

/// query reading every field of `ast`'s entity plus every name older rows of it were written with
fn entity_query(ast: &Model, entity: &str, rows: &[RowRec]) -> String {
    let mut names: Vec<(String, bool)> = vec![];
    if let Some(e) = ast.entity(entity) {
        for f in &e.fields {
            names.push((f.name.clone(), f.ty.is_ref()));
        }
    }
    for r in rows.iter().filter(|r| r.entity == entity) {
        for (n, (is_ref, _)) in &r.baseline {
            if n != "id" && !names.iter().any(|x| &x.0 == n) {
                names.push((n.clone(), *is_ref));
            }
        }
    }
    let refs: Vec<String> = names.iter().filter(|n| n.1).map(|n| n.0.clone()).collect();
    let mut q = format!("query q {{ {} ", entity);
    if !refs.is_empty() {
        q.push_str(&format!("(nullable({})) ", refs.join(",")));
    }
    q.push_str("{ id ");
    for (n, is_ref) in &names {
        if *is_ref {
            q.push_str(&format!("{}{{id}} ", n));
        } else {
            q.push_str(&format!("{} ", n));
        }
    }
    q.push_str("} }");
    q
}

type QueryResults = BTreeMap<String, Result<Value, String>>;

fn normalise_refs(v: &Value) -> Value {
    match v {
        Value::Array(a) => {
            let mut items: Vec<String> = a.iter().map(|x| x.to_string()).collect();
            items.sort();
            Value::Array(items.into_iter().map(Value::String).collect())
        }
        other => other.clone(),
    }
}

fn matches_default(ty: &Ty, lit: &str, v: &Value) -> bool {
    match ty {
        Ty::Int => lit.parse::<i64>().ok() == v.as_i64(),
        Ty::Float => lit.parse::<f64>().ok() == v.as_f64(),
        Ty::Str => v.as_str().map(|s| format!("\"{}\"", s)) == Some(lit.to_string()),
        Ty::Bool => {
            let b = lit == "true";
            v.as_bool() == Some(b) || v.as_i64() == Some(b as i64)
        }
        _ => false,
    }
}

/// Every pre-existing row must read the same values under the same names; names it never had read as null
/// or as the field's current default. Returns (symptom, explanation) pairs.
fn check_rows(ast_after: &Model, rows: &[RowRec], res: &QueryResults) -> Vec<(String, String)> {
    let mut bad = vec![];
    for r in rows {
        let rows_read = match res.get(&r.entity) {
            Some(Ok(v)) => v,
            Some(Err(e)) => {
                bad.push((format!("query-refused:{}", err_class(e)), format!("rows of {} cannot be read: {}", r.entity, e)));
                continue;
            }
            None => {
                bad.push(("entity-not-queried".into(), r.entity.clone()));
                continue;
            }
        };
        let empty = vec![];
        let list = rows_read[&r.entity].as_array().unwrap_or(&empty);
        let Some(found) = list.iter().find(|x| x["id"].as_str() == Some(r.id.as_str())) else {
            bad.push(("row-missing".into(), format!("a row of {} is not returned any more", r.entity)));
            continue;
        };
        let ent = ast_after.entity(&r.entity);
        for (name, (is_ref, before)) in &r.baseline {
            let now = &found[name];
            if *is_ref {
                if normalise_refs(now) != normalise_refs(before) {
                    bad.push(("reference-differs".into(), format!("{}.{}: {} became {}", r.entity, name, before, now)));
                }
                continue;
            }
            if !before.is_null() {
                if now != before {
                    bad.push(("value-differs".into(), format!("{}.{}: {} became {}", r.entity, name, before, now)));
                }
            } else if !now.is_null() {
                let fld = ent.and_then(|e| e.fields.iter().find(|f| &f.name == name));
                let ok = fld
                    .map(|f| f.default.as_ref().map(|d| matches_default(&f.ty, d, now)).unwrap_or(false))
                    .unwrap_or(false);
                if !ok {
                    bad.push((
                        "absent-value-reads-neither-null-nor-default".into(),
                        format!("{}.{}: null became {}", r.entity, name, now),
                    ));
                }
            }
        }
        if let Some(e) = ent {
            for f in &e.fields {
                if r.baseline.contains_key(&f.name) {
                    continue;
                }
                let now = &found[&f.name];
                let ok = if f.ty.is_ref() {
                    now.is_null() || now.as_array().map(|a| a.is_empty()).unwrap_or(false)
                } else {
                    now.is_null() || f.default.as_ref().map(|d| matches_default(&f.ty, d, now)).unwrap_or(false)
                };
                if !ok {
                    bad.push((
                        "new-field-reads-neither-null-nor-default".into(),
                        format!("{}.{} reads {} on a row written before the field existed", r.entity, f.name, now),
                    ));
                }
            }
        }
    }
    bad
}

fn baseline_of(entity: &str, ast: &Model, row: &Value) -> BTreeMap<String, (bool, Value)> {
    let mut b = BTreeMap::new();
    if let Some(e) = ast.entity(entity) {
        for f in &e.fields {
            b.insert(f.name.clone(), (f.ty.is_ref(), row[&f.name].clone()));
        }
    }
    b
}

// ------------------------------------------------------------------------------------------------
// light world
// ------------------------------------------------------------------------------------------------

pub struct LWorld {
    base: usize,
    hist: Vec<Ver>,
    ast: Model,
    lp: LPeer,
    cur_json: String,
    cur_val: Value,
    /// canonical model after the base and after every version of `hist`
    vals: Vec<Value>,
    rows: Vec<RowRec>,
    snapshot: QueryResults,
}

fn light_queries(lp: &LPeer, ast: &Model, rows: &[RowRec], out: &mut Outcome) -> QueryResults {
    let mut res = BTreeMap::new();
    let mut ents: Vec<String> = ast.entities().into_iter().map(|e| e.2).collect();
    for r in rows {
        if !ents.contains(&r.entity) {
            ents.push(r.entity.clone());
        }
    }
    for e in ents {
        let q = entity_query(ast, &e, rows);
        out.transitions += 1;
        let r = lp
            .query(&q, Parameters::default())
            .and_then(|s| serde_json::from_str::<Value>(&s).map_err(|e| e.to_string()));
        res.insert(e, r);
    }
    res
}

fn light_write_rows(lp: &mut LPeer, ast: &Model, ver: usize, rows: &mut Vec<RowRec>, out: &mut Outcome) -> Result<(), String> {
    let mut fresh = vec![];
    for p in creation_plans(ast, ver) {
        out.transitions += 1;
        let q = lp
            .mutate(&p.text, to_params(&p.params))
            .map_err(|e| format!("row creation refused ({}): {}", p.text, e))?;
        let res: Value = serde_json::from_str(&q.result().map_err(|e| e.to_string())?).map_err(|e| e.to_string())?;
        let id = res[&p.entity]["id"].as_str().ok_or(format!("no id in {}", res))?.to_string();
        fresh.push(rows.len());
        rows.push(RowRec { entity: p.entity.clone(), id, full: p.full, baseline: BTreeMap::new() });
    }
    for p in reference_plans(ast, rows, &fresh) {
        out.transitions += 1;
        lp.mutate(&p.text, to_params(&p.params))
            .map_err(|e| format!("reference update refused ({}): {}", p.text, e))?;
    }
    let res = light_queries(lp, ast, rows, out);
    fill_baselines(ast, rows, &fresh, &res)
}

fn fill_baselines(ast: &Model, rows: &mut [RowRec], fresh: &[usize], res: &QueryResults) -> Result<(), String> {
    for &ri in fresh {
        let ent = rows[ri].entity.clone();
        let v = match res.get(&ent) {
            Some(Ok(v)) => v,
            other => return Err(format!("baseline read of {} failed: {:?}", ent, other)),
        };
        let empty = vec![];
        let row = v[&ent]
            .as_array()
            .unwrap_or(&empty)
            .iter()
            .find(|x| x["id"].as_str() == Some(rows[ri].id.as_str()))
            .ok_or(format!("baseline: fresh row of {} not returned", ent))?;
        let b = baseline_of(&ent, ast, row);
        if rows[ri].full {
            for (n, (is_ref, v)) in &b {
                if !*is_ref && v.is_null() {
                    return Err(format!("baseline: complete row of {} reads null for {}", ent, n));
                }
            }
        }
        rows[ri].baseline = b;
    }
    Ok(())
}

/// apply `text` to a freshly deserialised copy of the serialised model (what the service does)
fn apply_fresh(cur_json: &str, text: &str) -> (Result<(), String>, DataModel) {
    let mut m: DataModel = serde_json::from_str(cur_json).expect("deserialise model");
    let r = m.update(text).map_err(|e| e.to_string());
    (r, m)
}

pub fn build_light(base: usize, hist: &[Ver], out: &mut Outcome) -> Result<LWorld, String> {
    let (_, ast0) = bases().swap_remove(base);
    let mut lp = LPeer::new(1, &ast0.text())?;
    let mut rows = vec![];
    light_write_rows(&mut lp, &ast0, 0, &mut rows, out)?;
    let mut vals = vec![canon(&lp.model)];
    let mut ast = ast0;
    for (i, v) in hist.iter().enumerate() {
        let cur_json = serde_json::to_string(&lp.model).map_err(|e| e.to_string())?;
        let text = v.model.text();
        let mut found = None;
        out.transitions += 1;
        for _ in 0..TRIAL_CAP {
            let (r, m) = apply_fresh(&cur_json, &text);
            r.map_err(|e| format!("history step {} refused while rebuilding: {}", v.kind, e))?;
            if positional(&canon(&m), &v.model) {
                found = Some(m);
                break;
            }
        }
        lp.model = found.ok_or(format!("no positional outcome for {} while rebuilding", v.kind))?;
        ast = v.model.clone();
        vals.push(canon(&lp.model));
        light_write_rows(&mut lp, &ast, i + 1, &mut rows, out)?;
    }
    let cur_json = serde_json::to_string(&lp.model).map_err(|e| e.to_string())?;
    let cur_val = canon(&lp.model);
    let snapshot = light_queries(&lp, &ast, &rows, out);
    Ok(LWorld { base, hist: hist.to_vec(), ast, lp, cur_json, cur_val, vals, rows, snapshot })
}

/// what the light world found for one transition (used to drive the full world and the recursion)
pub struct Judged {
    pub accepted: bool,
    /// distinct accepted outcomes, canonical
    pub outcomes: Vec<Value>,
    pub positional: Option<Value>,
    /// some application left a changed model behind although it was refused
    pub leak_seen: bool,
    pub err: Option<String>,
}

fn replay_json(base: usize, hist: &[Ver], target: &Ver, place: &str) -> Value {
    json!({"base": base, "hist": hist, "target": target, "where": place,
           "texts": hist.iter().map(|v| v.model.text()).chain(std::iter::once(target.model.text())).collect::<Vec<_>>()})
}

fn leak_name(v: &Ver) -> String {
    v.leak.clone().unwrap_or(format!("pure:{}", v.kind))
}

/// one finding per key and case: the number of distinct outcomes seen is a sample, the case is not
fn report(out: &mut Outcome, found: &mut BTreeSet<String>, key: &String, what: String, replay: Value) {
    if found.insert(key.clone()) {
        out.violation(key.clone(), what, replay);
    }
}

pub fn judge_light(w: &mut LWorld, v: &Ver, out: &mut Outcome) -> Judged {
    let text = v.model.text();
    let rp = replay_json(w.base, &w.hist, v, "light");
    let depth = w.hist.len() + 1;
    out.evaluations += 1;

    // distinct (verdict, resulting model) over the applications
    let mut distinct: Vec<(bool, String, Value, DataModel)> = vec![];
    let mut err = None;
    let mut t = 0;
    loop {
        let (r, m) = apply_fresh(&w.cur_json, &text);
        if t < K_TRIALS {
            out.transitions += 1; // the extra applications that look for the continuation are not counted
        }
        t += 1;
        let val = canon(&m);
        let ok = r.is_ok();
        if let Err(e) = r {
            if err.is_none() {
                err = Some(e);
            }
        }
        if !distinct.iter().any(|d| d.0 == ok && d.2 == val) {
            let s = val.to_string();
            distinct.push((ok, s, val, m));
        }
        if t >= K_TRIALS {
            let acc = distinct.iter().filter(|d| d.0).count();
            let have_pos = distinct.iter().any(|d| d.0 && positional(&d.2, &v.model));
            if !(acc > 1 && !have_pos && t < TRIAL_CAP) {
                break;
            }
        }
    }
    // order the outcomes canonically so that nothing below depends on trial order
    distinct.sort_by(|a, b| (a.0, &a.1).cmp(&(b.0, &b.1)));
    let n_acc = distinct.iter().filter(|d| d.0).count();
    let n_ref = distinct.len() - n_acc;
    let mut found: BTreeSet<String> = BTreeSet::new();

    if n_acc > 0 && n_ref > 0 {
        let key = format!("nondeterministic-verdict:{}", v.kind);
        report(out, &mut found, &key, format!("version {} ({}) is sometimes accepted and sometimes refused from the same state", v.kind, v.pos), rp.clone());
    }

    // ---------------- refused applications: nothing may have changed
    let mut leak_seen = false;
    for d in distinct.iter().filter(|d| !d.0) {
        if d.2 == w.cur_val {
            continue;
        }
        leak_seen = true;
        let classes = diff_classes(&w.cur_val, &d.2).join("+");
        let key = format!("refused:memory-model-changed:{}", leak_name(v));
        report(out, &mut found, 
            &key,
            format!(
                "version {} ({}) was refused ({}) but the in-memory model changed: {}",
                v.kind, v.pos, err.clone().unwrap_or_default(), classes
            ),
            rp.clone(),
        );
        // is the change visible to queries of the running instance?
        let mark = out.transitions;
        let saved = std::mem::replace(&mut w.lp.model, d.3.clone());
        let res = light_queries(&w.lp, &w.ast, &w.rows, out);
        w.lp.model = saved;
        out.transitions = mark;
        if res != w.snapshot {
            let symptom = if res.values().any(|r| r.is_err()) { "query-refused" } else { "result-differs" };
            let key = format!("refused:query-results-changed:{}:{}", leak_name(v), symptom);
            report(out, &mut found, 
                &key,
                format!("after the refused version {} ({}) the same queries answer differently ({})", v.kind, v.pos, symptom),
                rp.clone(),
            );
        }
    }

    // ---------------- accepted applications
    let outcomes: Vec<Value> = distinct.iter().filter(|d| d.0).map(|d| d.2.clone()).collect();
    let positional_outcome = outcomes.iter().find(|o| positional(o, &v.model)).cloned();
    if n_acc > 1 {
        let mut classes = BTreeSet::new();
        for o in &outcomes[1..] {
            for c in diff_classes(&outcomes[0], o) {
                classes.insert(c);
            }
        }
        let classes: Vec<String> = classes.into_iter().collect();
        let key = format!("accepted:nondeterministic-model:{}:{}", v.kind, classes.join("+"));
        report(out, &mut found, 
            &key,
            format!(
                "applying {} ({}) to the same state gave {} different models in {} applications (differences: {}): instances that applied the same versions disagree",
                v.kind, v.pos, n_acc, t, classes.join("+")
            ),
            rp.clone(),
        );
    }
    let (ids_before, _) = identifiers(&w.cur_val);
    for d in distinct.iter().filter(|d| d.0) {
        // counters stay a function of the case: the number of order dependent outcomes seen is a sample
        let mark = out.transitions;
        let canonical = n_acc == 1 || positional(&d.2, &v.model);
        if canonical {
            out.state(&d.1);
        }
        let (ids_after, problems) = identifiers(&d.2);
        for (name, id) in &ids_before {
            match ids_after.get(name) {
                Some(x) if x == id => {}
                other => {
                    let what = if name.starts_with("E:") { "entity" } else { "field" };
                    let key = format!("accepted:identifier-changed:{}:{}", v.kind, what);
                    report(out, &mut found, 
                        &key,
                        format!("after {} ({}) the storage identifier of {} changed from {} to {:?}", v.kind, v.pos, name, id, other),
                        rp.clone(),
                    );
                }
            }
        }
        for p in problems {
            let what = p.split(':').next().unwrap_or("?").to_string();
            let key = format!("accepted:identifier-collision:{}:{}", v.kind, what);
            report(out, &mut found, &key, format!("after {} ({}) storage identifiers collide: {}", v.kind, v.pos, p), rp.clone());
        }
        // data: every pre-existing row reads the same
        let saved = std::mem::replace(&mut w.lp.model, d.3.clone());
        let res = light_queries(&w.lp, &v.model, &w.rows, out);
        w.lp.model = saved;
        for (symptom, what) in check_rows(&v.model, &w.rows, &res) {
            let key = format!("accepted:value-lost:{}:{}", v.kind, symptom);
            report(out, &mut found, &key, format!("after the accepted version {} ({}): {}", v.kind, v.pos, what), rp.clone());
        }
        // re-applying the version that is now current is a no-op
        let js = serde_json::to_string(&d.3).unwrap();
        let (r2, m2) = apply_fresh(&js, &text);
        out.transitions += 1;
        match r2 {
            Err(e) => {
                let key = format!("accepted:reapply-refused:{}:{}", v.kind, err_class(&e));
                report(out, &mut found, 
                    &key,
                    format!("{} ({}) was accepted, but the same text is refused when applied again to the stored result (next start fails): {}", v.kind, v.pos, e),
                    rp.clone(),
                );
            }
            Ok(()) => {
                let v2 = canon(&m2);
                if v2 != d.2 {
                    let classes = diff_classes(&d.2, &v2).join("+");
                    let key = format!("accepted:reapply-changed:{}:{}", v.kind, classes);
                    report(out, &mut found, &key, format!("applying {} ({}) a second time changes the model: {}", v.kind, v.pos, classes), rp.clone());
                }
            }
        }
        if !canonical {
            out.transitions = mark;
        }
    }

    let verdict = match (n_acc, n_ref) {
        (0, _) => {
            if leak_seen {
                "refused:model-changed"
            } else {
                "refused:clean"
            }
        }
        (1, 0) => "accepted:deterministic",
        (_, 0) => "accepted:nondeterministic",
        _ => "mixed-verdict",
    };
    out.count(&format!("light:d{}:{}", depth, verdict));
    if v.expect_valid != (n_acc > 0) {
        out.count(&format!(
            "rules-say-{}-but-{}:{}",
            if v.expect_valid { "valid" } else { "invalid" },
            if n_acc > 0 { "accepted" } else { "refused" },
            v.kind
        ));
        if !v.expect_valid {
            // the statement quantifies over "invalid edits: removed/reordered/retyped items, missing defaults": such a
            // version has to be refused; the reference rules of c15_model agree with the implementation on every
            // version of the unchanged tree, so a disagreement is a change of the rules themselves
            report(
                out,
                &mut found,
                &format!("rules:invalid-version-accepted:{}", v.kind),
                format!("{} ({}) is an edit the compatibility rules refuse (rows written before it would not satisfy the new version) and it was accepted", v.kind, v.pos),
                replay_json(w.base, &w.hist, v, "light"),
            );
        }
    }
    let found_list: Vec<&String> = found.iter().collect();
    out.nontrivial(&(&v.kind, verdict, &found_list));
    if out.evaluations % 499 == 1 {
        out.sample(json!({"base": bases()[w.base].0, "history": w.hist.iter().map(|h| format!("{}@{}", h.kind, h.pos)).collect::<Vec<_>>(),
            "version": format!("{}@{}", v.kind, v.pos), "verdict": verdict, "distinct_outcomes": distinct.len(), "applications": t}));
    }
    Judged { accepted: n_acc > 0, outcomes, positional: positional_outcome, leak_seen, err }
}

// ------------------------------------------------------------------------------------------------
// full world
// ------------------------------------------------------------------------------------------------

pub struct FWorld {
    peer: FPeer,
    ast: Model,
    rows: Vec<RowRec>,
    /// snapshot of the (unchanged) state, taken once when the instance serves several refused versions
    before: Option<FSnap>,
    reapply_checked: bool,
}

/// `update_data_model` of the service drops the inner result: a refusal is not reported to the caller.
/// A version is live when the in-memory model carries its text (assigned last, on success only).
async fn runtime_update(p: &FPeer, text: &str) -> (bool, Option<String>, Value) {
    match p.db.update_data_model(text).await {
        Ok(s) => {
            let v: Value = serde_json::from_str(&s).unwrap_or(Value::Null);
            let acc = v["model"].as_str() == Some(text);
            (acc, None, v)
        }
        Err(e) => (false, Some(e.to_string()), Value::Null),
    }
}

#[derive(Clone, Debug, PartialEq)]
struct FSnap {
    model: Value,
    config: Value,
    indexes: Vec<Vec<Sv>>,
    stored: u64,
    queries: QueryResults,
}

async fn full_queries(p: &FPeer, ast: &Model, rows: &[RowRec], out: &mut Outcome) -> QueryResults {
    let mut res = BTreeMap::new();
    let mut ents: Vec<String> = ast.entities().into_iter().map(|e| e.2).collect();
    for r in rows {
        if !ents.contains(&r.entity) {
            ents.push(r.entity.clone());
        }
    }
    for e in ents {
        let q = entity_query(ast, &e, rows);
        out.transitions += 1;
        let r = p
            .query(&q, None)
            .await
            .and_then(|s| serde_json::from_str::<Value>(&s).map_err(|e| e.to_string()));
        res.insert(e, r);
    }
    res
}

async fn fsnap(p: &FPeer, ast: &Model, rows: &[RowRec], out: &mut Outcome) -> Result<FSnap, String> {
    p.barrier().await;
    let model: Value = serde_json::from_str(&p.db.datamodel().await.map_err(|e| e.to_string())?).map_err(|e| e.to_string())?;
    let cfg = p.sql("SELECT value FROM _configuration WHERE key='Data Model'").await?;
    let config: Value = match cfg.first().and_then(|r| r[0].text().map(|s| s.to_string())) {
        Some(s) => serde_json::from_str(&s).map_err(|e| e.to_string())?,
        None => Value::Null,
    };
    let indexes = p
        .sql("SELECT name, sql FROM sqlite_master WHERE type='index' AND name LIKE 'idx$%' ORDER BY name")
        .await?;
    let nodes = p
        .sql("SELECT hex(id), _entity, _json, mdate FROM _node WHERE _entity NOT LIKE '0.%' ORDER BY id")
        .await?;
    let edges = p
        .sql("SELECT hex(src), src_entity, label, hex(dest) FROM _edge WHERE src_entity NOT LIKE '0.%' ORDER BY 1,3,4")
        .await?;
    let stored = hash64(&(nodes, edges));
    let queries = full_queries(p, ast, rows, out).await;
    Ok(FSnap { model, config, indexes, stored, queries })
}

/// what kind of difference two answers to the same queries show (first difference, row by row)
fn query_diff_class(a: &QueryResults, b: &QueryResults) -> (String, String) {
    for (ent, ra) in a {
        let rb = b.get(ent);
        match (ra, rb) {
            (Ok(va), Some(Ok(vb))) => {
                if va == vb {
                    continue;
                }
                let empty = vec![];
                let la = va[ent].as_array().unwrap_or(&empty);
                let lb = vb[ent].as_array().unwrap_or(&empty);
                for x in la {
                    let Some(y) = lb.iter().find(|y| y["id"] == x["id"]) else {
                        return ("row-missing".into(), format!("a row of {} is not returned any more", ent));
                    };
                    if let (Some(ox), Some(oy)) = (x.as_object(), y.as_object()) {
                        for (k, vx) in ox {
                            let vy = oy.get(k).cloned().unwrap_or(Value::Null);
                            if *vx != vy {
                                let class = match (vx.is_null(), vy.is_null()) {
                                    (true, false) => "null-becomes-value",
                                    (false, true) => "value-becomes-null",
                                    _ => "value-changes",
                                };
                                return (class.into(), format!("{}.{}: {} became {}", ent, k, vx, vy));
                            }
                        }
                    }
                }
                if la.len() != lb.len() {
                    return ("row-added".into(), format!("{} returns {} rows instead of {}", ent, lb.len(), la.len()));
                }
                return ("order-or-shape".into(), ent.clone());
            }
            (Ok(_), Some(Err(e))) => return (format!("query-refused:{}", err_class(e)), format!("{}: {}", ent, e)),
            (Err(_), Some(Ok(_))) => return ("query-accepted".into(), ent.clone()),
            (Err(x), Some(Err(y))) => {
                if x != y {
                    return ("error-changes".into(), format!("{}: {} / {}", ent, x, y));
                }
            }
            (_, None) => return ("entity-not-queried".into(), ent.clone()),
        }
    }
    ("other".into(), String::new())
}

fn snap_diff(a: &FSnap, b: &FSnap) -> Vec<String> {
    let mut d = vec![];
    if a.model != b.model {
        let classes = diff_classes(&a.model, &b.model);
        if classes.iter().any(|c| c == "model-text") {
            d.push("memory-model(model-text)".to_string());
        }
        if classes.iter().any(|c| c != "model-text") {
            d.push("memory-model".to_string());
        }
    }
    if a.config != b.config {
        d.push("configuration".to_string());
    }
    if a.indexes != b.indexes {
        d.push("indexes".into());
    }
    if a.stored != b.stored {
        d.push("stored-rows".into());
    }
    if a.queries != b.queries {
        d.push("query-results".into());
    }
    d
}

async fn full_write_rows(p: &FPeer, ast: &Model, ver: usize, rows: &mut Vec<RowRec>, out: &mut Outcome) -> Result<(), String> {
    let mut fresh = vec![];
    for pl in creation_plans(ast, ver) {
        out.transitions += 1;
        let s = p
            .mutate(&pl.text, Some(to_params(&pl.params)))
            .await
            .map_err(|e| format!("full: row creation refused ({}): {}", pl.text, e))?;
        let res: Value = serde_json::from_str(&s).map_err(|e| e.to_string())?;
        let id = res[&pl.entity]["id"].as_str().ok_or(format!("no id in {}", res))?.to_string();
        fresh.push(rows.len());
        rows.push(RowRec { entity: pl.entity.clone(), id, full: pl.full, baseline: BTreeMap::new() });
    }
    for pl in reference_plans(ast, rows, &fresh) {
        out.transitions += 1;
        p.mutate(&pl.text, Some(to_params(&pl.params)))
            .await
            .map_err(|e| format!("full: reference update refused ({}): {}", pl.text, e))?;
    }
    p.barrier().await;
    let res = full_queries(p, ast, rows, out).await;
    fill_baselines(ast, rows, &fresh, &res)
}

/// a fresh service in the state reached by `hist` (run-time path), checked against the light world's models
async fn build_full(root: &PathBuf, base: usize, hist: &[Ver], vals: &[Value], out: &mut Outcome) -> Result<FWorld, String> {
    let mark = out.transitions;
    'retry: for _ in 0..FULL_RETRIES {
        out.transitions = mark;
        let (name, ast0) = bases().swap_remove(base);
        set_clock(T0);
        let peer = FPeer::start(name, 1, &ast0.text(), root).await?;
        let mut rows = vec![];
        full_write_rows(&peer, &ast0, 0, &mut rows, out).await?;
        let mut ast = ast0;
        for (i, v) in hist.iter().enumerate() {
            set_clock(T0 + (i as i64 + 1) * 1000);
            out.transitions += 1;
            let (acc, e, val) = runtime_update(&peer, &v.model.text()).await;
            if !acc {
                return Err(format!("full: history step {} refused: {:?}", v.kind, e));
            }
            if val != vals[i + 1] {
                // an order dependent outcome other than the one the exploration continues from
                let _ = std::fs::remove_dir_all(&peer.dir);
                continue 'retry;
            }
            ast = v.model.clone();
            full_write_rows(&peer, &ast, i + 1, &mut rows, out).await?;
        }
        return Ok(FWorld { peer, ast, rows, before: None, reapply_checked: false });
    }
    Err("full: could not rebuild the state the light world continues from".into())
}

fn drop_world(w: FWorld) {
    let _ = std::fs::remove_dir_all(&w.peer.dir);
}

/// oracle for an accepted transition observed on a full service instance `p`
#[allow(clippy::too_many_arguments)]
async fn full_accepted_checks(
    tag: &str,
    p: &FPeer,
    before: &Value,
    v: &Ver,
    rows: &[RowRec],
    j: &Judged,
    rp: &Value,
    out: &mut Outcome,
) -> Result<FSnap, String> {
    let snap = fsnap(p, &v.model, rows, out).await?;
    if j.outcomes.len() > 1 {
        // the light world saw several outcomes (a sample of the possible ones): nothing to compare with
        out.count("full:order-dependent-transition-not-compared-with-the-light-world");
    } else if !j.outcomes.contains(&snap.model) {
        let classes = j.outcomes.first().map(|o| diff_classes(o, &snap.model).join("+")).unwrap_or_default();
        out.violation(
            format!("conformance:model-differs:{}:{}", tag, v.kind),
            format!("the service's model after {} is none of the light world's outcomes: {}", v.kind, classes),
            rp.clone(),
        );
    } else {
        out.traces_validated += 1;
    }
    if snap.config != snap.model {
        out.violation(
            format!("{}:accepted:stored-model-differs-from-memory:{}", tag, v.kind),
            format!("after {} the stored model and the in-memory model differ: {}", v.kind, diff_classes(&snap.model, &snap.config).join("+")),
            rp.clone(),
        );
    }
    let (ids_before, _) = identifiers(before);
    let (ids_after, problems) = identifiers(&snap.model);
    for (name, id) in &ids_before {
        if ids_after.get(name) != Some(id) {
            let what = if name.starts_with("E:") { "entity" } else { "field" };
            out.violation(
                format!("{}:accepted:identifier-changed:{}:{}", tag, v.kind, what),
                format!("after {} the storage identifier of {} changed from {} to {:?}", v.kind, name, id, ids_after.get(name)),
                rp.clone(),
            );
        }
    }
    for pb in problems {
        let what = pb.split(':').next().unwrap_or("?").to_string();
        out.violation(format!("{}:accepted:identifier-collision:{}:{}", tag, v.kind, what), format!("after {}: {}", v.kind, pb), rp.clone());
    }
    for (symptom, what) in check_rows(&v.model, rows, &snap.queries) {
        out.violation(
            format!("{}:accepted:value-lost:{}:{}", tag, v.kind, symptom),
            format!("after the accepted version {} ({}): {}", v.kind, v.pos, what),
            rp.clone(),
        );
    }
    Ok(snap)
}

/// the transition `v` from the state `hist`, on the real service, both paths
#[allow(clippy::too_many_arguments)]
async fn full_transition(
    root: &PathBuf,
    base: usize,
    hist: &[Ver],
    vals: &[Value],
    v: &Ver,
    j: &Judged,
    shared: &mut Option<FWorld>,
    out: &mut Outcome,
) -> Result<(), String> {
    let text = v.model.text();
    let depth = hist.len() + 1;
    out.evaluations += 1;
    let cur_text = match hist.last() {
        Some(h) => h.model.text(),
        None => bases()[base].1.text(),
    };
    if !j.accepted {
        // refused versions do not change the state: one instance serves all of them
        if shared.is_none() {
            *shared = Some(build_full(root, base, hist, vals, out).await?);
        }
        let mut poisoned = false;
        {
            let w = shared.as_mut().unwrap();
            if w.before.is_none() {
                w.before = Some(fsnap(&w.peer, &w.ast, &w.rows, out).await?);
            }
            let before = w.before.clone().unwrap();
            // ---- run-time path
            let rp = replay_json(base, hist, v, "full-runtime");
            let mut tries = 0;
            let mut verdict = "refused:clean";
            let mut reported = true;
            let mut found: BTreeSet<String> = BTreeSet::new();
            let mark = out.transitions;
            loop {
                tries += 1;
                out.transitions = mark + 1; // retries that look for an order dependent outcome are not counted
                let (acc, rep_err, _) = runtime_update(&w.peer, &text).await;
                if acc {
                    out.violation(
                        format!("conformance:verdict-differs:full-runtime:{}", v.kind),
                        format!("{} is refused by the light world and accepted by update_data_model", v.kind),
                        rp.clone(),
                    );
                    poisoned = true;
                    break;
                }
                reported = rep_err.is_some();
                let after = fsnap(&w.peer, &w.ast, &w.rows, out).await?;
                let d = snap_diff(&before, &after);
                // the text of the system model is left in the `model` attribute by every refused update (the
                // system update runs first, in place): one key; anything else is keyed by what leaked
                let significant = d.iter().any(|c| c != "memory-model(model-text)");
                if !d.is_empty() {
                    verdict = if significant { "refused:changed" } else { "refused:model-text-changed" };
                    for comp in &d {
                        let key = if comp == "memory-model(model-text)" {
                            format!("full-runtime:refused:{}-changed", comp)
                        } else {
                            format!("full-runtime:refused:{}-changed:{}", comp, leak_name(v))
                        };
                        report(
                            out,
                            &mut found,
                            &key,
                            format!(
                                "update_data_model refused {} ({}) [light world: {}] but {} changed (model differences: {})",
                                v.kind,
                                v.pos,
                                j.err.clone().unwrap_or_default(),
                                comp,
                                diff_classes(&before.model, &after.model).join("+")
                            ),
                            rp.clone(),
                        );
                    }
                }
                // "re-applying the current version is a no-op" (the service reloads the stored model first);
                // it also restores the instance for the next refused version
                if !d.is_empty() || !w.reapply_checked {
                    out.transitions += 1;
                    let (acc2, e2, _) = runtime_update(&w.peer, &cur_text).await;
                    if !acc2 {
                        out.violation(
                            format!("full-runtime:reapply-current-refused:after-refused:{}", leak_name(v)),
                            format!("after the refused {}, re-applying the current version is refused: {:?}", v.kind, e2),
                            rp.clone(),
                        );
                        poisoned = true;
                        break;
                    }
                    let healed = fsnap(&w.peer, &w.ast, &w.rows, out).await?;
                    let d2 = snap_diff(&before, &healed);
                    if !d2.is_empty() {
                        out.violation(
                            format!("full-runtime:reapply-current-changed:{}", d2.join("+")),
                            format!("re-applying the current version after the refused {} changed {}", v.kind, d2.join("+")),
                            rp.clone(),
                        );
                        poisoned = true;
                        break;
                    }
                    w.reapply_checked = true;
                }
                if significant || !j.leak_seen || tries >= FULL_RETRIES {
                    break;
                }
            }
            if !poisoned {
                if (verdict == "refused:changed") == j.leak_seen {
                    out.traces_validated += 1; // same outcome class as the light world
                }
                if !reported {
                    out.count("full-runtime:refusal-not-reported-to-the-caller");
                }
                out.count(&format!("full-runtime:d{}:{}", depth, verdict));
                out.nontrivial(&("full-runtime", &v.kind, verdict));
                // ---- start-up path: a start with the refused text must fail and leave the folder as it is
                let rp = replay_json(base, hist, v, "full-startup");
                out.transitions += 1;
                out.evaluations += 1;
                match w.peer.restart(&text).await {
                    Ok(p2) => {
                        out.violation(
                            format!("conformance:verdict-differs:full-startup:{}", v.kind),
                            format!("{} is refused by the light world and accepted at start-up", v.kind),
                            rp.clone(),
                        );
                        drop(p2);
                        poisoned = true;
                    }
                    Err(_) => {
                        let after = fsnap(&w.peer, &w.ast, &w.rows, out).await?;
                        let d = snap_diff(&before, &after);
                        let verdict = if d.is_empty() { "refused:clean" } else { "refused:changed" };
                        for comp in &d {
                            out.violation(
                                format!("full-startup:refused:{}-changed:{}", comp, leak_name(v)),
                                format!("a start with the refused version {} ({}) changed {}", v.kind, v.pos, comp),
                                rp.clone(),
                            );
                            poisoned = true;
                        }
                        if d.is_empty() {
                            out.traces_validated += 1;
                        }
                        out.count(&format!("full-startup:d{}:{}", depth, verdict));
                        out.nontrivial(&("full-startup", &v.kind, verdict));
                    }
                }
            }
        }
        if poisoned {
            // the shared instance is not in the expected state any more: the next case gets a new one
            if let Some(w) = shared.take() {
                drop_world(w);
            }
        }
        return Ok(());
    }

    // ------------- accepted version: a fresh instance per path
    let before_val = vals[hist.len()].clone();
    let nondet = j.outcomes.len() > 1;
    // ---- run-time path, then restart with the same model
    let rp = replay_json(base, hist, v, "full-runtime");
    let mut tries = 0;
    let mark = out.transitions;
    loop {
        tries += 1;
        out.transitions = mark;
        let w = build_full(root, base, hist, vals, out).await?;
        set_clock(T0 + depth as i64 * 1000);
        // ---- the store fails while the version is being written (injected engine error at every fault point of
        // the batch that persists the model): the update is refused, so the running instance and the folder stay
        // as they were; the same version is then applied for real below
        if tries == 1 {
            let before = fsnap(&w.peer, &w.ast, &w.rows, out).await?;
            for point in ["batch.begin", "batch.item", "batch.before_commit"] {
                w.peer.barrier().await;
                verif_hooks::arm_fault(point, 1, verif_hooks::FaultMode::Error);
                out.transitions += 1;
                let (acc, _e, _) = runtime_update(&w.peer, &text).await;
                let fired = verif_hooks::faults_fired();
                verif_hooks::disarm_faults();
                if fired == 0 {
                    out.count(&format!("full-runtime:storage-failure:{}:not-reached", point));
                    if acc {
                        // applied for real: this instance is used up
                        break;
                    }
                    continue;
                }
                out.evaluations += 1;
                if acc {
                    out.violation(
                        format!("full-runtime:storage-failure:{}:version-live-although-not-stored", point),
                        format!("storing {} ({}) failed at {} but the running instance carries the new version", v.kind, v.pos, point),
                        rp.clone(),
                    );
                }
                let after = fsnap(&w.peer, &w.ast, &w.rows, out).await?;
                let d = snap_diff(&before, &after);
                for comp in &d {
                    let key = if comp == "memory-model(model-text)" {
                        format!("full-runtime:refused:{}-changed", comp)
                    } else {
                        format!("full-runtime:storage-failure:{}-changed", comp)
                    };
                    out.violation(
                        key,
                        format!("storing {} ({}) failed at {} (injected engine error): the update is refused but {} changed (model differences: {})", v.kind, v.pos, point, comp, diff_classes(&before.model, &after.model).join("+")),
                        rp.clone(),
                    );
                }
                out.count(&format!("full-runtime:storage-failure:{}:{}", point, if d.is_empty() { "clean" } else { "changed" }));
                out.nontrivial(&("full-runtime:storage-failure", point, &v.kind, d.is_empty()));
            }
        }
        out.transitions += 1;
        let (acc, e, stored) = runtime_update(&w.peer, &text).await;
        if !acc {
            out.violation(
                format!("conformance:verdict-differs:full-runtime:{}", v.kind),
                format!("{} is accepted by the light world and refused by update_data_model: {:?}", v.kind, e),
                rp.clone(),
            );
            drop_world(w);
            break;
        }
        // when the outcome depends on iteration order, look for an outcome a fresh parse disagrees with
        if nondet && positional(&stored, &v.model) && tries < FULL_RETRIES {
            drop_world(w);
            continue;
        }
        let snap = full_accepted_checks("full-runtime", &w.peer, &before_val, v, &w.rows, j, &rp, out).await?;
        // restart on the same folder with the same model: succeeds and changes nothing
        out.transitions += 1;
        let verdict;
        match w.peer.restart(&text).await {
            Err(e) => {
                verdict = "restart-refused";
                out.violation(
                    format!("full:restart-same-model-refused:{}:{}", v.kind, err_class(&e)),
                    format!("{} ({}) was accepted at run time; the next start with the same model text fails: {}", v.kind, v.pos, e),
                    rp.clone(),
                );
            }
            Ok(p2) => {
                let s2 = fsnap(&p2, &v.model, &w.rows, out).await?;
                let d = snap_diff(&snap, &s2);
                verdict = if d.is_empty() { "restart-unchanged" } else { "restart-changed" };
                for comp in &d {
                    if comp == "query-results" {
                        // keyed by the kind of difference: the cause may be an earlier version of the history
                        let (class, sample) = query_diff_class(&snap.queries, &s2.queries);
                        out.violation(
                            format!("full:restart-same-model-changed:query-results:{}", class),
                            format!(
                                "the running instance (versions applied with update_data_model, last: {} at {}) and the same folder restarted with the same model answer the same query differently: {}",
                                v.kind, v.pos, sample
                            ),
                            rp.clone(),
                        );
                    } else {
                        out.violation(
                            format!("full:restart-same-model-changed:{}:{}", v.kind, comp),
                            format!("restarting with the same model after {} changed {}", v.kind, comp),
                            rp.clone(),
                        );
                    }
                }
            }
        }
        out.count(&format!("full-runtime:d{}:accepted:{}", depth, verdict));
        out.nontrivial(&("full-runtime", &v.kind, verdict));
        drop_world(w);
        break;
    }
    // ---- start-up path, then re-apply at run time
    let rp = replay_json(base, hist, v, "full-startup");
    out.evaluations += 1;
    let mut tries = 0;
    let mark = out.transitions;
    let (w, started) = loop {
        tries += 1;
        out.transitions = mark;
        let w = build_full(root, base, hist, vals, out).await?;
        set_clock(T0 + depth as i64 * 1000);
        out.transitions += 1;
        let started = w.peer.restart(&text).await;
        if let Ok(p2) = &started {
            if nondet && tries < FULL_RETRIES {
                let m: Value = serde_json::from_str(&p2.db.datamodel().await.map_err(|e| e.to_string())?).map_err(|e| e.to_string())?;
                if positional(&m, &v.model) {
                    drop_world(w);
                    continue;
                }
            }
        }
        break (w, started);
    };
    match started {
        Err(e) => {
            out.violation(
                format!("conformance:verdict-differs:full-startup:{}", v.kind),
                format!("{} is accepted by the light world and refused at start-up: {}", v.kind, e),
                rp.clone(),
            );
        }
        Ok(p2) => {
            let snap = full_accepted_checks("full-startup", &p2, &before_val, v, &w.rows, j, &rp, out).await?;
            out.transitions += 1;
            let verdict;
            let (acc2, e2, after2) = runtime_update(&p2, &text).await;
            match acc2 {
                false => {
                    verdict = "reapply-refused";
                    let cause = if positional(&snap.model, &v.model) { "".to_string() } else { ":identifiers-not-in-text-order".to_string() };
                    out.violation(
                        format!("full:reapply-current-refused:{}{}", v.kind, cause),
                        format!(
                            "{} ({}) was accepted at start-up; applying the same text again at run time is refused ({:?}; in-memory model text afterwards: {:.40}...)",
                            v.kind, v.pos, e2, after2["model"].as_str().unwrap_or("?").replace('\n', " ")
                        ),
                        rp.clone(),
                    );
                }
                true => {
                    let s2 = fsnap(&p2, &v.model, &w.rows, out).await?;
                    let d = snap_diff(&snap, &s2);
                    verdict = if d.is_empty() { "reapply-unchanged" } else { "reapply-changed" };
                    for comp in &d {
                        out.violation(
                            format!("full:reapply-current-changed:{}:{}", v.kind, comp),
                            format!("re-applying the current version after {} changed {}", v.kind, comp),
                            rp.clone(),
                        );
                    }
                }
            }
            out.count(&format!("full-startup:d{}:accepted:{}", depth, verdict));
            out.nontrivial(&("full-startup", &v.kind, verdict));
        }
    }
    drop_world(w);
    Ok(())
}

// ------------------------------------------------------------------------------------------------
// exploration
// ------------------------------------------------------------------------------------------------

/// first level operators below which the quick tier runs the full world at depth 2
const QUICK_FULL_PARENTS: &[&str] = &["add-field-end:nullable", "add-2-fields", "remove-index", "to-nullable"];
/// second level operators run in the full world
const FULL_CORE: &[&str] = &[
    "add-field-end:nullable",
    "add-2-fields",
    "add-index",
    "remove-index",
    "to-not-null-with-default",
    "change-default",
    "deprecate-field",
    "add-entity-end",
    "remove-field",
    "retype-field",
    "mixed:add-field-end:nullable+remove-field",
    "mixed:to-nullable+retype-field",
];

fn full_depth1_selected(tier: Tier, v1: &Ver) -> bool {
    if std::env::var("C15_LIGHT_ONLY").is_ok() {
        return false;
    }
    match tier {
        Tier::Quick => v1.first_of_kind,
        Tier::Thorough => true,
    }
}

fn full_depth2_selected(tier: Tier, v1: &Ver, v2: &Ver) -> bool {
    if std::env::var("C15_LIGHT_ONLY").is_ok() {
        return false;
    }
    if !v1.first_of_kind || !v2.first_of_kind || !FULL_CORE.contains(&v2.kind.as_str()) {
        return false;
    }
    match tier {
        Tier::Quick => QUICK_FULL_PARENTS.contains(&v1.kind.as_str()),
        Tier::Thorough => true,
    }
}

fn work_items() -> Vec<(usize, usize)> {
    let mut items = vec![];
    for (bi, (_, m)) in bases().iter().enumerate() {
        for vi in 0..alphabet(m).len() {
            items.push((bi, vi));
        }
    }
    items
}

async fn explore_item(root: &PathBuf, tier: Tier, base: usize, vi: usize, roots: &mut Vec<Option<LWorld>>, shared0: &mut Vec<Option<FWorld>>, out: &mut Outcome) -> Result<(), String> {
    if roots[base].is_none() {
        roots[base] = Some(build_light(base, &[], out)?);
    }
    let w0 = roots[base].as_mut().unwrap();
    let alpha0 = alphabet(&w0.ast);
    let v1 = alpha0[vi].clone();
    let j1 = judge_light(w0, &v1, out);
    let vals0 = w0.vals.clone();
    if full_depth1_selected(tier, &v1) {
        full_transition(root, base, &[], &vals0, &v1, &j1, &mut shared0[base], out).await?;
    }
    if j1.positional.is_none() {
        if j1.accepted {
            out.count("pruned:no-positional-outcome");
        }
        return Ok(());
    }
    // depth 2
    let h1 = vec![v1.clone()];
    let mut w1 = build_light(base, &h1, out)?;
    let mut shared1: Option<FWorld> = None;
    for v2 in alphabet(&w1.ast) {
        let j2 = judge_light(&mut w1, &v2, out);
        if full_depth2_selected(tier, &v1, &v2) {
            let vals1 = w1.vals.clone();
            full_transition(root, base, &h1, &vals1, &v2, &j2, &mut shared1, out).await?;
        }
        // depth 3 (thorough): reduced alphabet (first position of every operator) at the three levels
        if tier == Tier::Thorough && v1.first_of_kind && v2.first_of_kind && j2.positional.is_some() {
            let h2 = vec![v1.clone(), v2.clone()];
            let mut w2 = build_light(base, &h2, out)?;
            for v3 in alphabet(&w2.ast) {
                if v3.first_of_kind {
                    judge_light(&mut w2, &v3, out);
                }
            }
        }
    }
    if let Some(w) = shared1 {
        drop_world(w);
    }
    Ok(())
}

// ------------------------------------------------------------------------------------------------
// cross process comparison
// ------------------------------------------------------------------------------------------------

/// outcome sets (hashes of canonical models, "R" for refused) of every transition of depth <= 2 of one
/// partition, computed by this process alone
fn xproc_worker(part: usize, parts: usize) -> i32 {
    let mut lines: Vec<(String, Vec<String>)> = vec![];
    for (idx, (bi, vi)) in work_items().into_iter().enumerate() {
        if idx % parts != part {
            continue;
        }
        let (_, ast0) = bases().swap_remove(bi);
        let m0 = crate::light::new_model(&ast0.text()).expect("base model");
        let js0 = serde_json::to_string(&m0).unwrap();
        let v1 = alphabet(&ast0).swap_remove(vi);
        let (set1, next) = xproc_apply(&js0, &v1);
        lines.push((format!("{}/{}", bi, vi), set1));
        if let Some(m1) = next {
            let js1 = serde_json::to_string(&m1).unwrap();
            for (v2i, v2) in alphabet(&v1.model).into_iter().enumerate() {
                let (set2, _) = xproc_apply(&js1, &v2);
                lines.push((format!("{}/{}/{}", bi, vi, v2i), set2));
            }
        }
    }
    println!("XPROC {}", serde_json::to_string(&lines).unwrap());
    0
}

fn xproc_apply(cur_json: &str, v: &Ver) -> (Vec<String>, Option<DataModel>) {
    let text = v.model.text();
    let mut set = BTreeSet::new();
    let mut next = None;
    let mut t = 0;
    loop {
        let (r, m) = apply_fresh(cur_json, &text);
        t += 1;
        if r.is_ok() {
            let val = canon(&m);
            set.insert(format!("{:016x}", hash64(&val.to_string())));
            if next.is_none() && positional(&val, &v.model) {
                next = Some(m);
            }
        } else {
            set.insert("R".to_string());
        }
        let accepted = set.iter().any(|s| s != "R");
        if t >= XPROC_TRIALS && !(accepted && next.is_none() && set.len() > 1 && t < TRIAL_CAP) {
            break;
        }
    }
    (set.into_iter().collect(), next)
}

fn spawn_xproc(args: &Args) -> Vec<(usize, char, std::process::Child)> {
    let exe = std::env::current_exe().unwrap();
    let mut children = vec![];
    for part in 0..XPROC_PARTS {
        for tag in ['a', 'b'] {
            let mut cmd = std::process::Command::new(&exe);
            cmd.arg("C15")
                .arg("--tier")
                .arg(args.tier.name())
                .arg("--xproc")
                .arg(format!("{}/{}", part, XPROC_PARTS))
                .stdout(std::process::Stdio::piped())
                .stderr(std::process::Stdio::inherit());
            children.push((part, tag, cmd.spawn().expect("spawn xproc worker")));
        }
    }
    children
}

fn collect_xproc(children: Vec<(usize, char, std::process::Child)>, out: &mut Outcome) {
    let mut results: BTreeMap<(usize, char), Vec<(String, Vec<String>)>> = BTreeMap::new();
    for (part, tag, c) in children {
        let o = c.wait_with_output().expect("xproc wait");
        let text = String::from_utf8_lossy(&o.stdout).to_string();
        let mut ok = false;
        for line in text.lines() {
            if let Some(j) = line.strip_prefix("XPROC ") {
                if let Ok(v) = serde_json::from_str::<Vec<(String, Vec<String>)>>(j) {
                    results.insert((part, tag), v);
                    ok = true;
                }
            }
        }
        if !ok || !o.status.success() {
            out.machinery_errors.push(format!("xproc worker {}{} failed: {:?}", part, tag, o.status));
        }
    }
    let all_bases = bases();
    for part in 0..XPROC_PARTS {
        let (Some(a), Some(b)) = (results.get(&(part, 'a')), results.get(&(part, 'b'))) else { continue };
        if a.len() != b.len() {
            out.machinery_errors.push(format!("xproc partition {}: {} vs {} sequences", part, a.len(), b.len()));
            continue;
        }
        for (x, y) in a.iter().zip(b.iter()) {
            if x.0 != y.0 {
                out.machinery_errors.push(format!("xproc partition {}: sequence order differs", part));
                break;
            }
            out.evaluations += 1;
            let union: BTreeSet<&String> = x.1.iter().chain(y.1.iter()).collect();
            let verdict = if union.len() == 1 {
                if union.contains(&"R".to_string()) {
                    "refused"
                } else {
                    "same-model"
                }
            } else if x.1.len() == 1 && y.1.len() == 1 {
                "one-model-per-process-but-not-the-same"
            } else {
                "several-models"
            };
            out.count(&format!("xproc:{}", verdict));
            if union.len() > 1 {
                // regenerate the sequence from its index
                let idx: Vec<usize> = x.0.split('/').map(|s| s.parse().unwrap()).collect();
                let ast0 = &all_bases[idx[0]].1;
                let v1 = alphabet(ast0).swap_remove(idx[1]);
                let (hist, target) = if idx.len() == 3 {
                    let v2 = alphabet(&v1.model).swap_remove(idx[2]);
                    (vec![v1], v2)
                } else {
                    (vec![], v1)
                };
                let with_refusal = union.contains(&"R".to_string());
                out.violation(
                    format!(
                        "xproc:{}:{}",
                        if with_refusal { "verdict-differs" } else { "nondeterministic-model" },
                        target.kind
                    ),
                    format!(
                        "two fresh processes applying the same version sequence (last: {} at {}) produced {} different serialised models",
                        target.kind, target.pos, union.len()
                    ),
                    replay_json(idx[0], &hist, &target, "xproc"),
                );
                out.nontrivial(&("xproc", &target.kind, verdict));
            }
        }
    }
}

// ------------------------------------------------------------------------------------------------
// replay, run
// ------------------------------------------------------------------------------------------------

fn replay(path: &str) -> i32 {
    let text = std::fs::read_to_string(path).expect("replay file");
    let v: Value = serde_json::from_str(&text).expect("json");
    let r = &v["replay"];
    let base = r["base"].as_u64().unwrap() as usize;
    let hist: Vec<Ver> = serde_json::from_value(r["hist"].clone()).unwrap();
    let target: Ver = serde_json::from_value(r["target"].clone()).unwrap();
    let place = r["where"].as_str().unwrap_or("light").to_string();
    println!("replay: base {} history {:?} version {}@{} ({})", bases()[base].0, hist.iter().map(|h| h.kind.clone()).collect::<Vec<_>>(), target.kind, target.pos, place);
    println!("--- version text ---\n{}--------------------", target.model.text());
    let root = scratch_root();
    let _g = ScratchGuard(root.clone());
    let rt = runtime();
    let mut keys: Vec<Vec<String>> = vec![];
    for round in 0..2 {
        let mut out = Outcome::default();
        let res: Result<(), String> = rt.block_on(async {
            let mut w = build_light(base, &hist, &mut out)?;
            let j = judge_light(&mut w, &target, &mut out);
            println!(
                "round {}: light world: accepted={} distinct accepted outcomes={} positional outcome seen={} refused-but-changed seen={} error={:?}",
                round, j.accepted, j.outcomes.len(), j.positional.is_some(), j.leak_seen, j.err
            );
            if place.starts_with("full") {
                let mut shared = None;
                let vals = w.vals.clone();
                let r = full_transition(&root, base, &hist, &vals, &target, &j, &mut shared, &mut out).await;
                println!("round {}: full world: {:?}", round, r);
                if let Some(s) = shared {
                    drop_world(s);
                }
            }
            Ok(())
        });
        if let Err(e) = res {
            eprintln!("machinery error: {}", e);
            return 2;
        }
        let mut ks: Vec<String> = out.violations.iter().map(|v| v.key.clone()).collect();
        ks.sort();
        for v in &out.violations {
            println!("round {}: {} :: {}", round, v.key, v.what);
        }
        if out.violations.is_empty() {
            println!("round {}: no violation", round);
        }
        keys.push(ks);
    }
    drop(rt);
    wait_for_threads();
    if keys[0] != keys[1] {
        eprintln!("machinery error: the two replay rounds disagree: {:?} vs {:?}", keys[0], keys[1]);
        return 2;
    }
    0
}

fn wait_for_threads() {
    for _ in 0..250 {
        let n = std::fs::read_dir("/proc/self/task").map(|d| d.count()).unwrap_or(1);
        if n <= 1 {
            break;
        }
        std::thread::sleep(std::time::Duration::from_millis(20));
    }
}

pub fn run(args: &Args) -> i32 {
    if let Some(p) = &args.replay {
        return replay(p);
    }
    if args.extra.iter().any(|a| a == "--bench") {
        let (_, ast0) = bases().swap_remove(1);
        let m0 = crate::light::new_model(&ast0.text()).unwrap();
        let js = serde_json::to_string(&m0).unwrap();
        let v = alphabet(&ast0).swap_remove(3);
        let text = v.model.text();
        let n = 2000;
        let t = Instant::now();
        for _ in 0..n {
            let _m: DataModel = serde_json::from_str(&js).unwrap();
        }
        println!("deserialise: {:?} per call, json {} bytes", t.elapsed() / n, js.len());
        let t = Instant::now();
        for _ in 0..n {
            let (_r, _m) = apply_fresh(&js, &text);
        }
        println!("deserialise+update: {:?}", t.elapsed() / n);
        let (_r, m) = apply_fresh(&js, &text);
        let t = Instant::now();
        for _ in 0..n {
            let _ = canon(&m);
        }
        println!("canon: {:?}", t.elapsed() / n);
        let c = canon(&m);
        let t = Instant::now();
        for _ in 0..n {
            let _ = c == canon(&m0);
        }
        println!("canon+compare: {:?}", t.elapsed() / n);
        let t = Instant::now();
        for _ in 0..n {
            let _ = c.to_string();
        }
        println!("to_string: {:?}", t.elapsed() / n);
        let mut out = Outcome::default();
        let t = Instant::now();
        for _ in 0..20 {
            let _ = build_light(1, &[], &mut out).unwrap();
        }
        println!("build_light(base): {:?}", t.elapsed() / 20);
        let mut w = build_light(1, &[], &mut out).unwrap();
        let t = Instant::now();
        for _ in 0..50 {
            let _ = light_queries(&w.lp, &w.ast, &w.rows, &mut out);
        }
        println!("light_queries: {:?}", t.elapsed() / 50);
        let t = Instant::now();
        for _ in 0..50 {
            let _ = judge_light(&mut w, &v, &mut out);
        }
        println!("judge_light({}): {:?}", v.kind, t.elapsed() / 50);
        return 0;
    }
    if let Some(i) = args.extra.iter().position(|a| a == "--xproc") {
        let p: Vec<usize> = args.extra[i + 1].split('/').map(|s| s.parse().unwrap()).collect();
        return xproc_worker(p[0], p[1]);
    }
    let start = Instant::now();
    if let Some((i, n)) = args.shard {
        let root = scratch_root();
        let _g = ScratchGuard(root.clone());
        let rt = runtime();
        let mut out = Outcome::default();
        verif_hooks::set_uid_namespace(0xC15);
        let res: Result<(), String> = rt.block_on(async {
            let nb = bases().len();
            let mut roots: Vec<Option<LWorld>> = (0..nb).map(|_| None).collect();
            let mut shared0: Vec<Option<FWorld>> = (0..nb).map(|_| None).collect();
            for (idx, (bi, vi)) in work_items().into_iter().enumerate() {
                if idx % n != i {
                    continue;
                }
                explore_item(&root, args.tier, bi, vi, &mut roots, &mut shared0, &mut out).await?;
            }
            for w in shared0.into_iter().flatten() {
                drop_world(w);
            }
            Ok(())
        });
        if let Err(e) = res {
            out.machinery_errors.push(e);
        }
        // the reader/writer threads of the services close their SQLCipher connections when the actors are
        // dropped with the runtime: let them finish before the process runs its exit handlers
        drop(rt);
        wait_for_threads();
        emit_shard_outcome(&out);
        return 0;
    }
    let xp = spawn_xproc(args);
    let mut out = run_sharded(args, ncpu().min(16));
    collect_xproc(xp, &mut out);
    let alpha: Vec<usize> = bases().iter().map(|(_, m)| alphabet(m).len()).collect();
    let mut kinds = BTreeSet::new();
    for (_, m) in bases() {
        for v in alphabet(&m) {
            kinds.insert(v.kind);
        }
    }
    let meta = CheckMeta {
        prop: "C15",
        level: "model_checking",
        rule: "E-STATE over version sequences: 3 base models x every edit operator at every applicable position (alphabet regenerated in every state), every sequence up to the depth bound, rows of every entity written under every version; each transition applied K times to freshly deserialised copies of the current model (light world, real DataModel + real mutation/query pipeline), in two fresh worker processes, and on the real service (update_data_model and start on the same folder) for depth 1 and a stratified part of depth 2. states = distinct canonical serialised models reached; a case is distinct/non-trivial by (operator, verdict class, set of finding keys)".into(),
        bounds: json!({
            "base_models": 3, "alphabet_at_depth_1": alpha, "operator_kinds": kinds.len(),
            "depth": args.tier.pick(2, 3),
            "depth_1_and_2": "full alphabet at both levels",
            "depth_3": args.tier.pick("none", "reduced alphabet (first position of every operator) at the three levels"),
            "applications_per_transition": K_TRIALS, "fresh_processes_per_sequence": 2, "xproc_applications_per_process": XPROC_TRIALS,
            "xproc": "every sequence of depth <= 2",
            "full_world_depth_1": args.tier.pick("reduced alphabet (first position of every operator), both paths", "full alphabet, both paths"),
            "full_world_depth_2": args.tier.pick("4 first-level operators x 12 core second-level operators, both paths", "every accepted first-level operator (first position) x 12 core second-level operators, both paths"),
        }),
        assumptions: vec![
            "values read back right after a row is written, under the version it was written with, are the reference (differential oracle)".into(),
            "a value a row never stored may read as null or as the field's current default".into(),
            "iteration orders of discret's hash maps are sampled (K fresh copies per transition), not enumerated: an order dependent outcome of probability p per application is missed with probability (1-p)^K".into(),
            "the exploration continues from the outcome whose identifiers follow the positions of the version text".into(),
            "Json defaults and quoted string defaults are left to C04/C05".into(),
        ],
        exhaustive_claim: true,
    };
    finish(args, &meta, &out, start)
}
