use crate::common::*;
use crate::world::*;
use discret::verif::database::query_language::parameter::{Parameters, ParametersAdd};
use std::time::Instant;

pub fn run(_args: &Args) -> i32 {
    let root = scratch_root();
    let _g = ScratchGuard(root.clone());
    let rt = runtime();
    rt.block_on(async {
        set_clock(T0);
        let model = "ns { P { name:String, n:Integer default 0 } Q { name:String } }";
        let t = Instant::now();
        let a = FPeer::start("a", 1, model, &root).await.unwrap();
        let b = FPeer::start("b", 2, model, &root).await.unwrap();
        println!("start 2 peers {:?}", t.elapsed());
        let mut p = Parameters::default();
        p.add("a", a.key_b64()).unwrap();
        p.add("b", b.key_b64()).unwrap();
        let r = a.db.mutate_raw(r#"mutate { sys.Room{ admin:[{verif_key:$a}] authorisations:[{ name:"g" rights:[{entity:"ns.P" mutate_self:true mutate_all:false}] users:[{verif_key:$b}] }] } }"#, Some(p)).await.unwrap();
        let room = r.mutate_entities[0].node_to_mutate.id;
        let t = Instant::now();
        for i in 0..100 {
            let mut p = Parameters::default();
            p.add("r", b64(&room)).unwrap();
            p.add("n", format!("x{}", i)).unwrap();
            a.mutate("mutate { ns.P { room_id:$r name:$n } }", Some(p)).await.unwrap();
        }
        println!("100 mutations {:?}", t.elapsed());
        a.barrier().await;
        let t = Instant::now();
        let st = pull(&b, &a, room, PullOpts::default()).await;
        println!("pull {:?} {:?}", t.elapsed(), st);
        let t = Instant::now();
        let st = pull(&b, &a, room, PullOpts::default()).await;
        println!("pull2 {:?} {:?}", t.elapsed(), st);
        let q = b.query("query { ns.P (order_by(name asc), first 3) { name } }", None).await.unwrap();
        println!("{}", q);
        let rows = b.sql("SELECT count(*) FROM _node").await.unwrap();
        println!("{:?}", rows);
    });
    0
}
