use crate::common::*;
use crate::rooms::*;
use crate::world::*;

pub fn run(_args: &Args) -> i32 {
    let root = scratch_root();
    let _g = ScratchGuard(root.clone());
    let rt = runtime();
    rt.block_on(async {
        set_clock(tick(0));
        let u = Universe::start(&root).await.unwrap();
        let mut r1 = u.create_room(0, tick(0), &[(vec![("ns.P", true, false)], vec![1, 2], vec![])]).await.unwrap();
        println!("spread0 {:?}", u.spread_room(&r1, 0).await);
        println!("B rooms: {:?}", u.peers[1].sql("SELECT hex(id), _entity, mdate, hex(room_id) FROM _node WHERE _entity like '0.%'").await.unwrap());
        let acc = u.apply_event(&mut r1, &REvent::AddUser{group:0, key:3, enabled:true}, 0, tick(4)).await.unwrap();
        println!("acc {}", acc);
        println!("spread1 {:?}", u.spread_room(&r1, 0).await);
        let n = u.peers[0].db.get_room_node(r1.id).await.unwrap();
        println!("A export: {}", n.is_some());
        let n = u.peers[1].db.get_room_node(r1.id).await.unwrap();
        println!("B export: {}", n.is_some());
    });
    0
}
