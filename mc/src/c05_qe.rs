//! C05 reference evaluator QE: own model/data/query AST, rendering to the query language,
//! evaluation over the harness side copy of the inserted rows, permissive structural matching.
//!
//! QE never looks at the database: it sees the data set description the loader inserted.
use serde::{Deserialize, Serialize};
use serde_json::Value;
use std::cmp::Ordering;

// ---------------------------------------------------------------------------------------------
// values, model, data
// ---------------------------------------------------------------------------------------------
#[derive(Clone, Debug, PartialEq, Serialize, Deserialize)]
pub enum V {
    I(i64),
    F(f64),
    S(String),
    B(bool),
    /// a Json value
    J(Value),
    /// the uid of data set row n (resolved at run time; keeps replays id free)
    Id(usize),
    /// uid bytes (only produced by key resolution, never generated)
    Bin(Vec<u8>),
}

#[derive(Clone, Copy, Debug, PartialEq, Eq, Hash, Serialize, Deserialize)]
pub enum K {
    Int,
    Float,
    Str,
    Bool,
    B64,
    Json,
}

#[derive(Clone, Debug)]
pub struct FDef {
    pub name: &'static str,
    pub kind: K,
    pub nullable: bool,
    pub default: Option<V>,
    /// model version that introduces the field
    pub since: usize,
    pub v1: V,
    pub v2: V,
    /// a value that no row holds, between v1 and v2 when the type is ordered
    pub vm: Option<V>,
}

#[derive(Clone, Debug)]
pub struct RDef {
    pub name: &'static str,
    pub target: usize,
    pub array: bool,
    pub nullable: bool,
}

#[derive(Clone, Debug)]
pub struct EDef {
    /// full name with namespace ("ns.P") or bare name
    pub name: &'static str,
    pub fields: Vec<FDef>,
    pub refs: Vec<RDef>,
}

#[derive(Clone, Debug)]
pub struct MDef {
    pub id: &'static str,
    pub nver: usize,
    pub ents: Vec<EDef>,
}

fn lit(v: &V) -> String {
    match v {
        V::I(i) => i.to_string(),
        V::F(f) => {
            let s = format!("{:?}", f);
            if s.contains('.') {
                s
            } else {
                format!("{}.0", s)
            }
        }
        V::S(s) => serde_json::to_string(s).unwrap(),
        V::B(b) => b.to_string(),
        V::J(j) => serde_json::to_string(&j.to_string()).unwrap(),
        V::Id(_) | V::Bin(_) => unreachable!("id literal is resolved before rendering"),
    }
}

impl MDef {
    /// data model text of version `ver`
    pub fn text(&self, ver: usize) -> String {
        // group entities by namespace, keeping declaration order
        let mut nss: Vec<(String, Vec<&EDef>)> = vec![];
        for e in &self.ents {
            let (ns, _) = split_ns(e.name);
            if let Some(x) = nss.iter_mut().find(|x| x.0 == ns) {
                x.1.push(e);
            } else {
                nss.push((ns.to_string(), vec![e]));
            }
        }
        let mut s = String::new();
        for (ns, ents) in nss {
            s.push_str(&format!("{} {{\n", ns));
            for e in ents {
                let (_, bare) = split_ns(e.name);
                s.push_str(&format!("  {} {{\n", bare));
                let mut entries = vec![];
                for v in 0..=ver {
                    for f in e.fields.iter().filter(|f| f.since == v) {
                        let ty = match f.kind {
                            K::Int => "Integer",
                            K::Float => "Float",
                            K::Str => "String",
                            K::Bool => "Boolean",
                            K::B64 => "Base64",
                            K::Json => "Json",
                        };
                        let tail = if let Some(d) = &f.default {
                            format!(" default {}", lit(d))
                        } else if f.nullable {
                            " nullable".to_string()
                        } else {
                            String::new()
                        };
                        entries.push(format!("    {}: {}{}", f.name, ty, tail));
                    }
                    if v == 0 {
                        for r in &e.refs {
                            let t = self.ents[r.target].name;
                            let ty = if r.array { format!("[{}]", t) } else { t.to_string() };
                            entries.push(format!(
                                "    {}: {}{}",
                                r.name,
                                ty,
                                if r.nullable { " nullable" } else { "" }
                            ));
                        }
                    }
                }
                s.push_str(&entries.join(",\n"));
                s.push_str("\n  }\n");
            }
            s.push_str("}\n");
        }
        s
    }
}

fn split_ns(name: &str) -> (&str, &str) {
    match name.rfind('.') {
        Some(p) => (&name[0..p], &name[p + 1..]),
        None => ("", name),
    }
}

#[derive(Clone, Debug, PartialEq, Serialize, Deserialize)]
pub enum Cell {
    /// not written (row created without the field)
    Absent,
    /// written as null
    Null,
    Val(V),
}

#[derive(Clone, Debug, Serialize, Deserialize)]
pub struct DRow {
    pub ent: usize,
    /// model version in force when the row is inserted
    pub ver: usize,
    pub cells: Vec<Cell>,
    /// per reference field: indexes of target rows (lower than the own index)
    pub refs: Vec<Vec<usize>>,
    /// clock offset (ms after T0) of the insertion
    pub tick: i64,
}

#[derive(Clone, Debug, Default, Serialize, Deserialize)]
pub struct DataSet {
    pub rows: Vec<DRow>,
}

/// what the loader learnt while inserting (ids are run time values)
#[derive(Clone, Debug)]
pub struct LRow {
    pub id: Vec<u8>,
    pub id_b64: String,
    pub date: i64,
}

pub struct World<'a> {
    pub m: &'a MDef,
    pub ds: &'a DataSet,
    pub lrows: &'a [LRow],
}

impl<'a> World<'a> {
    /// the value a reader of the documentation expects for field f of row r (default applied)
    pub fn eff(&self, r: usize, f: usize) -> Option<V> {
        let row = &self.ds.rows[r];
        match &row.cells[f] {
            Cell::Val(v) => Some(v.clone()),
            Cell::Null => None,
            Cell::Absent => self.m.ents[row.ent].fields[f].default.clone(),
        }
    }
    pub fn rows_of(&self, ent: usize) -> Vec<usize> {
        (0..self.ds.rows.len()).filter(|r| self.ds.rows[*r].ent == ent).collect()
    }
}

// ---------------------------------------------------------------------------------------------
// query AST
// ---------------------------------------------------------------------------------------------
#[derive(Clone, Copy, Debug, PartialEq, Eq, Hash, Serialize, Deserialize)]
pub enum Op {
    Eq,
    Ne,
    Lt,
    Le,
    Gt,
    Ge,
}
pub const OPS: [Op; 6] = [Op::Eq, Op::Ne, Op::Lt, Op::Le, Op::Gt, Op::Ge];
impl Op {
    pub fn text(&self) -> &'static str {
        match self {
            Op::Eq => "=",
            Op::Ne => "!=",
            Op::Lt => "<",
            Op::Le => "<=",
            Op::Gt => ">",
            Op::Ge => ">=",
        }
    }
    pub fn class(&self) -> &'static str {
        match self {
            Op::Eq => "eq",
            Op::Ne => "ne",
            _ => "ord",
        }
    }
    fn holds(&self, o: Ordering) -> bool {
        match self {
            Op::Eq => o == Ordering::Equal,
            Op::Ne => o != Ordering::Equal,
            Op::Lt => o == Ordering::Less,
            Op::Le => o != Ordering::Greater,
            Op::Gt => o == Ordering::Greater,
            Op::Ge => o != Ordering::Less,
        }
    }
}

#[derive(Clone, Debug, PartialEq, Serialize, Deserialize)]
pub enum Operand {
    Lit(V),
    Var(V),
    NullLit,
    NullVar,
}
impl Operand {
    pub fn class(&self) -> &'static str {
        match self {
            Operand::Lit(_) => "lit",
            Operand::Var(_) => "var",
            Operand::NullLit => "nulllit",
            Operand::NullVar => "nullvar",
        }
    }
}

#[derive(Clone, Debug, Serialize, Deserialize)]
pub struct Filter {
    pub name: String,
    pub op: Op,
    pub val: Operand,
}

#[derive(Clone, Debug, PartialEq, Serialize, Deserialize)]
pub enum Sel {
    /// "$", "$.val", "$.arr[1].k"
    Path(String),
    Idx(usize),
}
impl Sel {
    fn text(&self) -> String {
        match self {
            Sel::Path(p) => p.clone(),
            Sel::Idx(i) => i.to_string(),
        }
    }
}

#[derive(Clone, Debug, Serialize, Deserialize)]
pub struct JFilter {
    pub f: usize,
    pub sel: Sel,
    pub op: Op,
    pub val: Operand,
}

#[derive(Clone, Copy, Debug, PartialEq, Eq, Hash, Serialize, Deserialize)]
pub enum Func {
    Count,
    Avg,
    Sum,
    Min,
    Max,
}
impl Func {
    pub fn name(&self) -> &'static str {
        match self {
            Func::Count => "count",
            Func::Avg => "avg",
            Func::Sum => "sum",
            Func::Min => "min",
            Func::Max => "max",
        }
    }
}

#[derive(Clone, Debug, Serialize, Deserialize)]
pub enum QF {
    Fld { f: usize, alias: Option<String> },
    /// id, cdate, mdate, room_id
    Sys { name: String, alias: Option<String> },
    Sub { r: usize, alias: Option<String>, q: Box<EQ> },
    Agg { alias: String, func: Func, f: Option<usize> },
    JSel { alias: String, f: usize, sel: Sel },
}

#[derive(Clone, Copy, Debug, PartialEq, Serialize, Deserialize)]
pub struct Lim {
    pub n: usize,
    pub var: bool,
}

#[derive(Clone, Debug, Default, Serialize, Deserialize)]
pub struct EQ {
    pub ent: usize,
    pub alias: Option<String>,
    pub fields: Vec<QF>,
    pub filters: Vec<Filter>,
    pub jfilters: Vec<JFilter>,
    /// (name, ascending)
    pub order: Vec<(String, bool)>,
    pub first: Option<Lim>,
    pub skip: Option<Lim>,
    pub after: Vec<Operand>,
    pub before: Vec<Operand>,
    pub nullable: Vec<String>,
}

impl QF {
    pub fn out_name(&self, m: &MDef, ent: usize) -> String {
        match self {
            QF::Fld { f, alias } => alias.clone().unwrap_or(m.ents[ent].fields[*f].name.to_string()),
            QF::Sys { name, alias } => alias.clone().unwrap_or(name.clone()),
            QF::Sub { r, alias, .. } => alias.clone().unwrap_or(m.ents[ent].refs[*r].name.to_string()),
            QF::Agg { alias, .. } => alias.clone(),
            QF::JSel { alias, .. } => alias.clone(),
        }
    }
}

#[derive(Clone, Debug, PartialEq)]
pub enum PV {
    I(i64),
    F(f64),
    S(String),
    B(bool),
    Null,
}

pub struct Rendered {
    pub text: String,
    pub params: Vec<(String, PV)>,
}

struct RCtx<'a> {
    m: &'a MDef,
    lrows: &'a [LRow],
    params: Vec<(String, PV)>,
}

impl<'a> RCtx<'a> {
    fn var(&mut self, pv: PV) -> String {
        let n = format!("p{}", self.params.len());
        self.params.push((n.clone(), pv));
        format!("${}", n)
    }
    fn resolve(&self, v: &V) -> V {
        match v {
            V::Id(i) => V::S(self.lrows.get(*i).map(|l| l.id_b64.clone()).unwrap_or("AAAAAAAAAAAAAAAAAAAAAA".into())),
            o => o.clone(),
        }
    }
    fn operand(&mut self, o: &Operand) -> String {
        match o {
            Operand::Lit(v) => lit(&self.resolve(v)),
            Operand::Var(v) => {
                let pv = match self.resolve(v) {
                    V::I(i) => PV::I(i),
                    V::F(f) => PV::F(f),
                    V::S(s) => PV::S(s),
                    V::B(b) => PV::B(b),
                    V::J(j) => PV::S(j.to_string()),
                    _ => unreachable!(),
                };
                self.var(pv)
            }
            Operand::NullLit => "null".to_string(),
            Operand::NullVar => self.var(PV::Null),
        }
    }
    fn entity(&mut self, q: &EQ, name: &str, alias: &Option<String>, out: &mut String, ind: usize) {
        let pad = "  ".repeat(ind);
        out.push_str(&pad);
        if let Some(a) = alias {
            out.push_str(&format!("{}: ", a));
        }
        out.push_str(name);
        let mut ps: Vec<String> = vec![];
        for f in &q.filters {
            let v = self.operand(&f.val);
            ps.push(format!("{} {} {}", f.name, f.op.text(), v));
        }
        for f in &q.jfilters {
            let v = self.operand(&f.val);
            ps.push(format!(
                "{}->{} {} {}",
                self.m.ents[q.ent].fields[f.f].name,
                f.sel.text(),
                f.op.text(),
                v
            ));
        }
        if !q.order.is_empty() {
            let o: Vec<String> = q
                .order
                .iter()
                .map(|(n, asc)| format!("{} {}", n, if *asc { "asc" } else { "desc" }))
                .collect();
            ps.push(format!("order_by({})", o.join(", ")));
        }
        if let Some(l) = &q.first {
            if l.var {
                let v = self.var(PV::I(l.n as i64));
                ps.push(format!("first {}", v));
            } else {
                ps.push(format!("first {}", l.n));
            }
        }
        if let Some(l) = &q.skip {
            if l.var {
                let v = self.var(PV::I(l.n as i64));
                ps.push(format!("skip {}", v));
            } else {
                ps.push(format!("skip {}", l.n));
            }
        }
        if !q.after.is_empty() {
            let v: Vec<String> = q.after.iter().map(|o| self.operand(o)).collect();
            ps.push(format!("after({})", v.join(", ")));
        }
        if !q.before.is_empty() {
            let v: Vec<String> = q.before.iter().map(|o| self.operand(o)).collect();
            ps.push(format!("before({})", v.join(", ")));
        }
        if !q.nullable.is_empty() {
            ps.push(format!("nullable({})", q.nullable.join(", ")));
        }
        if !ps.is_empty() {
            out.push_str(&format!(" ({})", ps.join(", ")));
        }
        out.push_str(" {\n");
        let e = &self.m.ents[q.ent];
        for f in &q.fields {
            match f {
                QF::Fld { f, alias } => {
                    out.push_str(&pad);
                    out.push_str("  ");
                    if let Some(a) = alias {
                        out.push_str(&format!("{}: ", a));
                    }
                    out.push_str(e.fields[*f].name);
                    out.push('\n');
                }
                QF::Sys { name, alias } => {
                    out.push_str(&pad);
                    out.push_str("  ");
                    if let Some(a) = alias {
                        out.push_str(&format!("{}: ", a));
                    }
                    out.push_str(name);
                    out.push('\n');
                }
                QF::Sub { r, alias, q } => {
                    self.entity(q, e.refs[*r].name, alias, out, ind + 1);
                }
                QF::Agg { alias, func, f } => {
                    out.push_str(&pad);
                    out.push_str(&format!(
                        "  {}: {}({})\n",
                        alias,
                        func.name(),
                        f.map(|f| e.fields[f].name).unwrap_or("")
                    ));
                }
                QF::JSel { alias, f, sel } => {
                    out.push_str(&pad);
                    out.push_str(&format!("  {}: {}->{}\n", alias, e.fields[*f].name, sel.text()));
                }
            }
        }
        out.push_str(&pad);
        out.push_str("}\n");
    }
}

/// text of `query q { <entities> }` and its parameters
pub fn render(m: &MDef, lrows: &[LRow], qs: &[&EQ]) -> Rendered {
    let mut c = RCtx { m, lrows, params: vec![] };
    let mut out = String::from("query q {\n");
    for q in qs {
        c.entity(q, m.ents[q.ent].name, &q.alias, &mut out, 1);
    }
    out.push_str("}\n");
    Rendered { text: out, params: c.params }
}

pub fn result_name(m: &MDef, q: &EQ) -> String {
    q.alias.clone().unwrap_or(m.ents[q.ent].name.to_string())
}

// ---------------------------------------------------------------------------------------------
// expectation
// ---------------------------------------------------------------------------------------------
#[derive(Clone, Copy, Debug, PartialEq, Eq)]
pub enum Tri {
    False,
    True,
    /// the documentation does not fix whether the row matches
    Opt,
}
impl Tri {
    fn and(self, o: Tri) -> Tri {
        match (self, o) {
            (Tri::False, _) | (_, Tri::False) => Tri::False,
            (Tri::Opt, _) | (_, Tri::Opt) => Tri::Opt,
            _ => Tri::True,
        }
    }
    fn of(b: bool) -> Tri {
        if b {
            Tri::True
        } else {
            Tri::False
        }
    }
}

#[derive(Clone, Debug)]
pub enum Exp {
    Val(Option<V>),
    Obj(Vec<(String, Exp)>),
    /// alternatives (any may match)
    List(Vec<ListSpec>),
    OneOf(Vec<Exp>),
}

#[derive(Clone, Debug)]
pub struct Item {
    pub must: Tri,
    pub keys: Vec<Option<V>>,
    pub exp: Exp,
    /// index of the data set row (or group number) for diagnosis
    pub src: usize,
}

#[derive(Clone, Debug)]
pub struct ListSpec {
    pub items: Vec<Item>,
    pub dirs: Vec<bool>,
    pub first: Option<usize>,
    pub skip: usize,
    /// (before?, cursor)
    pub paging: Option<(bool, Vec<V>)>,
}

/// placement of null order keys: (first when ascending, first when descending)
#[derive(Clone, Copy, Debug, PartialEq, Eq)]
pub struct Pol(pub bool, pub bool);
pub const POLS: [Pol; 4] = [Pol(true, false), Pol(false, true), Pol(true, true), Pol(false, false)];

fn num(v: &V) -> Option<f64> {
    match v {
        V::I(i) => Some(*i as f64),
        V::F(f) => Some(*f),
        V::J(Value::Number(n)) => n.as_f64(),
        _ => None,
    }
}

/// typed comparison of two non null values; None when the types are not comparable
pub fn cmp_v(a: &V, b: &V) -> Option<Ordering> {
    if let (Some(x), Some(y)) = (num(a), num(b)) {
        return x.partial_cmp(&y);
    }
    match (a, b) {
        (V::S(x), V::S(y)) => Some(x.as_bytes().cmp(y.as_bytes())),
        (V::B(x), V::B(y)) => Some(x.cmp(y)),
        (V::Bin(x), V::Bin(y)) => Some(x.cmp(y)),
        (V::J(Value::String(x)), V::J(Value::String(y))) => Some(x.as_bytes().cmp(y.as_bytes())),
        (V::J(Value::String(x)), V::S(y)) | (V::S(y), V::J(Value::String(x))) => {
            let o = x.as_bytes().cmp(y.as_bytes());
            Some(if matches!(a, V::J(_)) { o } else { o.reverse() })
        }
        (V::J(Value::Bool(x)), V::J(Value::Bool(y))) => Some(x.cmp(y)),
        _ => None,
    }
}

/// position of key a relative to key b in a result ordered in direction `asc` under policy `pol`
pub fn cmp_key(a: &Option<V>, b: &Option<V>, asc: bool, pol: Pol) -> Ordering {
    let nulls_first = if asc { pol.0 } else { pol.1 };
    match (a, b) {
        (None, None) => Ordering::Equal,
        (None, Some(_)) => {
            if nulls_first {
                Ordering::Less
            } else {
                Ordering::Greater
            }
        }
        (Some(_), None) => {
            if nulls_first {
                Ordering::Greater
            } else {
                Ordering::Less
            }
        }
        (Some(x), Some(y)) => {
            // values of types that have no documented order tie (permissive)
            let o = cmp_v(x, y).unwrap_or(Ordering::Equal);
            if asc {
                o
            } else {
                o.reverse()
            }
        }
    }
}

/// relative position of two key tuples; None when the documentation fixes no order between them
/// (values of different Json types)
pub fn cmp_keys(a: &[Option<V>], b: &[Option<V>], dirs: &[bool], pol: Pol) -> Option<Ordering> {
    for i in 0..dirs.len() {
        if let (Some(x), Some(y)) = (&a[i], &b[i]) {
            if cmp_v(x, y).is_none() {
                return None;
            }
        }
        let o = cmp_key(&a[i], &b[i], dirs[i], pol);
        if o != Ordering::Equal {
            return Some(o);
        }
    }
    Some(Ordering::Equal)
}

fn paging_holds(keys: &[Option<V>], before: bool, cursor: &[V], dirs: &[bool], pol: Pol) -> bool {
    for i in 0..cursor.len() {
        let o = cmp_key(&keys[i], &Some(cursor[i].clone()), dirs[i], pol);
        match o {
            Ordering::Equal => continue,
            Ordering::Greater => return !before,
            Ordering::Less => return before,
        }
    }
    false
}

fn filter_tri(lhs: &Option<V>, op: Op, val: &Operand, w: &World) -> Tri {
    match val {
        Operand::NullLit => match op {
            Op::Eq => Tri::of(lhs.is_none()),
            Op::Ne => Tri::of(lhs.is_some()),
            _ => Tri::Opt,
        },
        Operand::NullVar => match op {
            Op::Eq => {
                if lhs.is_none() {
                    Tri::Opt
                } else {
                    Tri::False
                }
            }
            Op::Ne => {
                if lhs.is_none() {
                    Tri::False
                } else {
                    Tri::Opt
                }
            }
            _ => Tri::Opt,
        },
        Operand::Lit(v) | Operand::Var(v) => {
            let v = resolve_id(v, w);
            match lhs {
                None => match op {
                    Op::Ne => Tri::Opt,
                    _ => Tri::False,
                },
                Some(l) => match cmp_v(l, &v) {
                    Some(o) => Tri::of(op.holds(o)),
                    None => Tri::Opt,
                },
            }
        }
    }
}

fn resolve_id(v: &V, w: &World) -> V {
    match v {
        V::Id(i) => V::Bin(w.lrows[*i].id.clone()),
        o => o.clone(),
    }
}

pub fn json_path(j: &Value, sel: &Sel) -> Option<Value> {
    match sel {
        Sel::Idx(i) => j.as_array().and_then(|a| a.get(*i)).cloned(),
        Sel::Path(p) => {
            let mut cur = j.clone();
            let rest = p.strip_prefix('$').unwrap_or(p);
            for seg in rest.split('.').filter(|s| !s.is_empty()) {
                let (name, idx) = match seg.find('[') {
                    Some(b) => (&seg[0..b], Some(seg[b + 1..seg.len() - 1].parse::<usize>().ok()?)),
                    None => (seg, None),
                };
                cur = cur.as_object()?.get(name)?.clone();
                if let Some(i) = idx {
                    cur = cur.as_array()?.get(i)?.clone();
                }
            }
            Some(cur)
        }
    }
}

/// how a name used in a filter / order_by / paging position is read
#[derive(Clone, Debug)]
enum Key {
    Field(usize),
    Sys(String),
    Ref(usize),
    Agg(usize),
    JSel(usize, Sel),
    SubSel(usize),
}

fn is_sys(name: &str) -> bool {
    matches!(name, "id" | "cdate" | "mdate" | "room_id")
}

fn resolve_name(w: &World, q: &EQ, name: &str) -> Key {
    let e = &w.m.ents[q.ent];
    if let Some(f) = e.fields.iter().position(|f| f.name == name) {
        return Key::Field(f);
    }
    if is_sys(name) {
        return Key::Sys(name.to_string());
    }
    if let Some(r) = e.refs.iter().position(|r| r.name == name) {
        return Key::Ref(r);
    }
    for (i, f) in q.fields.iter().enumerate() {
        if f.out_name(w.m, q.ent) == name {
            return match f {
                QF::Fld { f, .. } => Key::Field(*f),
                QF::Sys { name, .. } => Key::Sys(name.clone()),
                QF::Sub { .. } => Key::SubSel(i),
                QF::Agg { .. } => Key::Agg(i),
                QF::JSel { f, sel, .. } => Key::JSel(*f, sel.clone()),
            };
        }
    }
    panic!("generator produced an unresolvable name {}", name)
}

fn sys_value(w: &World, r: usize, name: &str) -> Option<V> {
    match name {
        "id" => Some(V::Bin(w.lrows[r].id.clone())),
        "cdate" | "mdate" => Some(V::I(w.lrows[r].date)),
        _ => None,
    }
}

fn sys_out(w: &World, r: usize, name: &str) -> Option<V> {
    match name {
        "id" => Some(V::S(w.lrows[r].id_b64.clone())),
        "cdate" | "mdate" => Some(V::I(w.lrows[r].date)),
        _ => None,
    }
}

fn scalar_key(w: &World, r: usize, k: &Key) -> Option<V> {
    match k {
        Key::Field(f) => w.eff(r, *f),
        Key::Sys(n) => sys_value(w, r, n),
        Key::JSel(f, sel) => match w.eff(r, *f) {
            Some(V::J(j)) => match json_path(&j, sel) {
                Some(Value::Null) | None => None,
                Some(x) => Some(V::J(x)),
            },
            _ => None,
        },
        _ => None,
    }
}

/// evaluation of one sub selection for one parent row
struct SubEval {
    /// is there, for sure / possibly / not, at least one selected target
    present: Tri,
    exp: Exp,
}

fn eval_sub(w: &World, parent: usize, r: usize, sq: &EQ) -> SubEval {
    let rd = &w.m.ents[w.ds.rows[parent].ent].refs[r];
    let targets: Vec<usize> = w.ds.rows[parent].refs[r].clone();
    let lists = eval_rows(w, sq, &targets, !rd.array);
    // presence = "the sub selection as written returns something": judged on the match set of the first
    // alternative (sub selections carry no aggregate in generated queries, so there is one alternative) after
    // its own skip; `first 0` reads both as "no limit" and as "no row"
    let ls = &lists[0];
    let sure = ls.items.iter().filter(|i| i.must == Tri::True).count();
    let maybe = ls.items.iter().filter(|i| i.must == Tri::Opt).count();
    let mut present = if sure > ls.skip {
        Tri::True
    } else if sure + maybe > ls.skip {
        Tri::Opt
    } else {
        Tri::False
    };
    if ls.first == Some(0) && present == Tri::True {
        present = Tri::Opt;
    }
    let exp = if rd.array {
        Exp::List(lists)
    } else {
        // single reference: the first selected target or null
        let mut alts = vec![];
        for it in ls.items.iter().filter(|i| i.must != Tri::False) {
            alts.push(it.exp.clone());
        }
        if present != Tri::True {
            alts.push(Exp::Val(None));
        }
        Exp::OneOf(alts)
    };
    SubEval { present, exp }
}

/// evaluate entity query `q` over the candidate rows. Several alternatives only for aggregates with
/// rows whose matching is not fixed.
pub fn eval_rows(w: &World, q: &EQ, cands: &[usize], single: bool) -> Vec<ListSpec> {
    let e = &w.m.ents[q.ent];
    let is_agg = q.fields.iter().any(|f| matches!(f, QF::Agg { .. }));
    let order_keys: Vec<Key> = q.order.iter().map(|(n, _)| resolve_name(w, q, n)).collect();
    let dirs: Vec<bool> = q.order.iter().map(|(_, a)| *a).collect();

    // row level: required references, row filters, selected object
    struct RowEv {
        r: usize,
        must: Tri,
        fields: Vec<(String, Exp)>,
    }
    let mut rows: Vec<RowEv> = vec![];
    for &r in cands {
        let mut must = Tri::True;
        let mut fields = vec![];
        let mut subs: Vec<(usize, SubEval)> = vec![];
        for (i, f) in q.fields.iter().enumerate() {
            let name = f.out_name(w.m, q.ent);
            match f {
                QF::Fld { f, .. } => fields.push((name, Exp::Val(w.eff(r, *f)))),
                QF::Sys { name: n, .. } => fields.push((name, Exp::Val(sys_out(w, r, n)))),
                QF::JSel { f, sel, .. } => {
                    let v = match w.eff(r, *f) {
                        Some(V::J(j)) => json_path(&j, sel).and_then(|x| if x.is_null() { None } else { Some(V::J(x)) }),
                        _ => None,
                    };
                    fields.push((name, Exp::Val(v)));
                }
                QF::Sub { r: ri, q: sq, .. } => {
                    let se = eval_sub(w, r, *ri, sq);
                    let required = !e.refs[*ri].nullable && !q.nullable.contains(&name);
                    if required {
                        must = must.and(se.present);
                    }
                    fields.push((name, se.exp.clone()));
                    subs.push((i, se));
                }
                QF::Agg { .. } => {}
            }
        }
        // row filters
        for fl in &q.filters {
            let k = resolve_name(w, q, &fl.name);
            let t = match &k {
                Key::Agg(_) => Tri::True, // group filter, applied later
                Key::Ref(ri) => {
                    // filter on a reference: null <=> nothing selected / referenced
                    let sel = q.fields.iter().enumerate().find(|(_, f)| {
                        matches!(f, QF::Sub { r, .. } if r == ri) && f.out_name(w.m, q.ent) == fl.name
                    });
                    let present = match sel {
                        Some((i, _)) => subs.iter().find(|s| s.0 == i).unwrap().1.present,
                        None => Tri::of(!w.ds.rows[r].refs[*ri].is_empty()),
                    };
                    ref_filter(present, fl.op, &fl.val)
                }
                Key::SubSel(i) => {
                    let present = subs.iter().find(|s| s.0 == *i).unwrap().1.present;
                    ref_filter(present, fl.op, &fl.val)
                }
                k => filter_tri(&scalar_key(w, r, k), fl.op, &fl.val, w),
            };
            must = must.and(t);
        }
        for jf in &q.jfilters {
            let lhs = scalar_key(w, r, &Key::JSel(jf.f, jf.sel.clone()));
            must = must.and(filter_tri(&lhs, jf.op, &jf.val, w));
        }
        rows.push(RowEv { r, must, fields });
    }

    let paging = if !q.after.is_empty() {
        Some((false, q.after.iter().map(|o| operand_value(o, w)).collect::<Vec<V>>()))
    } else if !q.before.is_empty() {
        Some((true, q.before.iter().map(|o| operand_value(o, w)).collect::<Vec<V>>()))
    } else {
        None
    };
    let first = if single { Some(1) } else { q.first.map(|l| l.n) };
    let skip = if single { 0 } else { q.skip.map(|l| l.n).unwrap_or(0) };

    if !is_agg {
        let items = rows
            .into_iter()
            .map(|re| Item {
                must: re.must,
                keys: order_keys.iter().map(|k| scalar_key(w, re.r, k)).collect(),
                exp: Exp::Obj(re.fields),
                src: re.r,
            })
            .collect();
        return vec![ListSpec { items, dirs, first, skip, paging }];
    }

    // aggregates: one alternative per choice of the rows whose matching is not fixed
    let fixed: Vec<&RowEv> = rows.iter().filter(|r| r.must == Tri::True).collect();
    let opt: Vec<&RowEv> = rows.iter().filter(|r| r.must == Tri::Opt).collect();
    let group_fields: Vec<(usize, usize)> = q
        .fields
        .iter()
        .enumerate()
        .filter_map(|(i, f)| if let QF::Fld { f, .. } = f { Some((i, *f)) } else { None })
        .collect();
    let mut alts = vec![];
    for mask in 0..(1usize << opt.len()) {
        let mut members: Vec<usize> = fixed.iter().map(|r| r.r).collect();
        for (i, o) in opt.iter().enumerate() {
            if mask & (1 << i) != 0 {
                members.push(o.r);
            }
        }
        members.sort();
        // groups by the selected scalar fields (values as selected, default applied)
        let mut groups: Vec<(Vec<Option<V>>, Vec<usize>)> = vec![];
        for &r in &members {
            let key: Vec<Option<V>> = group_fields.iter().map(|(_, f)| w.eff(r, *f)).collect();
            if let Some(g) = groups.iter_mut().find(|g| g.0 == key) {
                g.1.push(r);
            } else {
                groups.push((key, vec![r]));
            }
        }
        let mut lists_for_mask: Vec<Vec<(Vec<Option<V>>, Vec<usize>)>> = vec![groups.clone()];
        if group_fields.is_empty() && members.is_empty() {
            // no group key and no row: one all-empty group or no group at all, both accepted
            lists_for_mask = vec![vec![], vec![(vec![], vec![])]];
        } else if group_fields.is_empty() {
            lists_for_mask = vec![vec![(vec![], members.clone())]];
        }
        for groups in lists_for_mask {
            let mut items = vec![];
            for (gi, (gkey, rs)) in groups.iter().enumerate() {
                let mut fields = vec![];
                let mut aggs: Vec<(usize, Vec<Option<V>>)> = vec![];
                let mut gk = 0;
                for (i, f) in q.fields.iter().enumerate() {
                    let name = f.out_name(w.m, q.ent);
                    match f {
                        QF::Fld { .. } => {
                            fields.push((name, Exp::Val(gkey[gk].clone())));
                            gk += 1;
                        }
                        QF::Agg { func, f, .. } => {
                            let vals: Vec<V> = match f {
                                Some(f) => rs.iter().filter_map(|r| w.eff(*r, *f)).collect(),
                                None => vec![],
                            };
                            let alts: Vec<Option<V>> = match func {
                                Func::Count => vec![Some(V::I(rs.len() as i64))],
                                Func::Avg => {
                                    if vals.is_empty() {
                                        vec![None]
                                    } else {
                                        let s: f64 = vals.iter().map(|v| num(v).unwrap()).sum();
                                        vec![Some(V::F(s / vals.len() as f64))]
                                    }
                                }
                                Func::Sum => {
                                    if vals.is_empty() {
                                        vec![None, Some(V::F(0.0))]
                                    } else {
                                        vec![Some(V::F(vals.iter().map(|v| num(v).unwrap()).sum()))]
                                    }
                                }
                                Func::Min | Func::Max => {
                                    let mut best: Option<V> = None;
                                    for v in vals {
                                        best = match best {
                                            None => Some(v),
                                            Some(b) => {
                                                let o = cmp_v(&v, &b).unwrap_or(Ordering::Equal);
                                                if (*func == Func::Min && o == Ordering::Less)
                                                    || (*func == Func::Max && o == Ordering::Greater)
                                                {
                                                    Some(v)
                                                } else {
                                                    Some(b)
                                                }
                                            }
                                        }
                                    }
                                    vec![best]
                                }
                            };
                            fields.push((
                                name,
                                if alts.len() == 1 {
                                    Exp::Val(alts[0].clone())
                                } else {
                                    Exp::OneOf(alts.iter().map(|a| Exp::Val(a.clone())).collect())
                                },
                            ));
                            aggs.push((i, alts));
                        }
                        _ => {}
                    }
                }
                // key of a group for filters on aggregates / order / paging
                let key_of = |k: &Key| -> Option<V> {
                    match k {
                        Key::Agg(i) => aggs.iter().find(|a| a.0 == *i).and_then(|a| a.1.last().cloned().flatten()),
                        Key::Field(f) => match group_fields.iter().position(|g| g.1 == *f) {
                            Some(p) => gkey[p].clone(),
                            None => None,
                        },
                        _ => None,
                    }
                };
                let mut must = Tri::True;
                for fl in &q.filters {
                    let k = resolve_name(w, q, &fl.name);
                    if let Key::Agg(_) = k {
                        must = must.and(filter_tri(&key_of(&k), fl.op, &fl.val, w));
                    }
                }
                items.push(Item {
                    must,
                    keys: order_keys.iter().map(|k| key_of(k)).collect(),
                    exp: Exp::Obj(fields),
                    src: gi,
                });
            }
            alts.push(ListSpec { items, dirs: dirs.clone(), first, skip, paging: paging.clone() });
        }
    }
    alts
}

fn operand_value(o: &Operand, w: &World) -> V {
    match o {
        Operand::Lit(v) | Operand::Var(v) => resolve_id(v, w),
        _ => panic!("null cursor is not generated"),
    }
}

fn ref_filter(present: Tri, op: Op, val: &Operand) -> Tri {
    let is_null = match present {
        Tri::True => Tri::False,
        Tri::False => Tri::True,
        Tri::Opt => Tri::Opt,
    };
    match (op, val) {
        (Op::Eq, Operand::NullLit) => is_null,
        (Op::Ne, Operand::NullLit) => match is_null {
            Tri::True => Tri::False,
            Tri::False => Tri::True,
            Tri::Opt => Tri::Opt,
        },
        _ => Tri::Opt,
    }
}

// ---------------------------------------------------------------------------------------------
// matching
// ---------------------------------------------------------------------------------------------
pub fn json_num_eq(a: f64, b: f64) -> bool {
    a == b || (a - b).abs() <= 1e-9 * a.abs().max(b.abs()).max(1.0)
}

pub fn json_eq(a: &Value, b: &Value) -> bool {
    match (a, b) {
        (Value::Number(x), Value::Number(y)) => match (x.as_f64(), y.as_f64()) {
            (Some(x), Some(y)) => json_num_eq(x, y),
            _ => x == y,
        },
        (Value::Array(x), Value::Array(y)) => x.len() == y.len() && x.iter().zip(y).all(|(p, q)| json_eq(p, q)),
        (Value::Object(x), Value::Object(y)) => {
            x.len() == y.len() && x.iter().all(|(k, v)| y.get(k).map(|w| json_eq(v, w)).unwrap_or(false))
        }
        _ => a == b,
    }
}

fn match_val(e: &Option<V>, a: &Value) -> bool {
    match e {
        None => a.is_null(),
        Some(V::I(i)) => a.is_number() && a.as_f64().map(|x| x == *i as f64).unwrap_or(false),
        Some(V::F(f)) => a.is_number() && a.as_f64().map(|x| json_num_eq(x, *f)).unwrap_or(false),
        Some(V::S(s)) => a.as_str() == Some(s.as_str()),
        Some(V::B(b)) => a.as_bool() == Some(*b),
        Some(V::J(j)) => json_eq(j, a),
        Some(V::Id(_)) | Some(V::Bin(_)) => false,
    }
}

pub fn matches(e: &Exp, a: &Value, pol: Pol) -> bool {
    match e {
        Exp::Val(v) => match_val(v, a),
        Exp::Obj(fields) => match a.as_object() {
            Some(o) => {
                o.len() == fields.len()
                    && fields.iter().all(|(n, fe)| o.get(n).map(|x| matches(fe, x, pol)).unwrap_or(false))
            }
            None => false,
        },
        Exp::List(alts) => match a.as_array() {
            Some(arr) => alts.iter().any(|ls| match_list(ls, arr, pol)),
            None => false,
        },
        Exp::OneOf(alts) => alts.iter().any(|x| matches(x, a, pol)),
    }
}

/// is `actual` one of the sequences the specification accepts under the null placement `pol`
pub fn match_list(ls: &ListSpec, actual: &[Value], pol: Pol) -> bool {
    let cand: Vec<&Item> = ls
        .items
        .iter()
        .filter(|i| i.must != Tri::False)
        .filter(|i| match &ls.paging {
            Some((before, cur)) => paging_holds(&i.keys, *before, cur, &ls.dirs, pol),
            None => true,
        })
        .collect();
    let opt: Vec<usize> = (0..cand.len()).filter(|i| cand[*i].must == Tri::Opt).collect();
    for mask in 0..(1usize << opt.len()) {
        let set: Vec<&Item> = (0..cand.len())
            .filter(|i| match opt.iter().position(|o| o == i) {
                Some(p) => mask & (1 << p) != 0,
                None => true,
            })
            .map(|i| cand[i])
            .collect();
        let firsts: Vec<Option<usize>> = match ls.first {
            // `first 0` is the documented default (no limit) but also reads as "no row": both accepted
            Some(0) => vec![None, Some(0)],
            f => vec![f],
        };
        for first in firsts {
            let n = set.len();
            let lo = ls.skip.min(n);
            let hi = match first {
                Some(f) => (ls.skip + f).min(n),
                None => n,
            };
            if hi - lo != actual.len() {
                continue;
            }
            let mut used = vec![false; n];
            if extend(&set, &mut used, 0, lo, hi, actual, &ls.dirs, pol) {
                return true;
            }
        }
    }
    false
}

#[allow(clippy::too_many_arguments)]
fn extend(
    set: &[&Item],
    used: &mut Vec<bool>,
    pos: usize,
    lo: usize,
    hi: usize,
    actual: &[Value],
    dirs: &[bool],
    pol: Pol,
) -> bool {
    if pos >= hi {
        return true; // what follows the window is not observed
    }
    let n = set.len();
    for i in 0..n {
        if used[i] {
            continue;
        }
        // i may come next only if no other remaining item sorts strictly before it
        let minimal = (0..n)
            .all(|j| used[j] || j == i || cmp_keys(&set[j].keys, &set[i].keys, dirs, pol) != Some(Ordering::Less));
        if !minimal {
            continue;
        }
        if pos >= lo && !matches(&set[i].exp, &actual[pos - lo], pol) {
            continue;
        }
        used[i] = true;
        let ok = extend(set, used, pos + 1, lo, hi, actual, dirs, pol);
        used[i] = false;
        if ok {
            return true;
        }
    }
    false
}

/// why a result was refused: symptom for the finding key
pub fn diagnose(alts: &[ListSpec], actual: &[Value]) -> &'static str {
    let ls = &alts[0];
    let pol = POLS[0];
    let cand: Vec<&Item> = ls
        .items
        .iter()
        .filter(|i| i.must != Tri::False)
        .filter(|i| match &ls.paging {
            Some((before, cur)) => paging_holds(&i.keys, *before, cur, &ls.dirs, pol),
            None => true,
        })
        .collect();
    let n_true = cand.iter().filter(|i| i.must == Tri::True).count();
    let n_all = cand.len();
    let window = |n: usize| -> usize {
        let lo = ls.skip.min(n);
        let hi = match ls.first {
            Some(0) | None => n,
            Some(f) => (ls.skip + f).min(n),
        };
        hi - lo
    };
    let (min_len, max_len) = (window(n_true), window(n_all));
    if actual.len() < min_len {
        return "missing row";
    }
    if actual.len() > max_len {
        return "extra row";
    }
    // every returned element must be some candidate's object
    let mut unmatched = 0;
    let mut used = vec![false; cand.len()];
    for a in actual {
        let hit = (0..cand.len()).find(|i| !used[*i] && POLS.iter().any(|p| matches(&cand[*i].exp, a, *p)));
        match hit {
            Some(i) => used[i] = true,
            None => unmatched += 1,
        }
    }
    if unmatched > 0 {
        // an element that is no candidate: either a row that should not be there, or a wrong rendering
        let all: Vec<&Item> = ls.items.iter().collect();
        let is_other_row = actual.iter().any(|a| {
            all.iter()
                .any(|i| i.must == Tri::False && POLS.iter().any(|p| matches(&i.exp, a, *p)))
                && !cand.iter().any(|i| POLS.iter().any(|p| matches(&i.exp, a, *p)))
        });
        let paged_out = ls.paging.is_some()
            && actual.iter().any(|a| {
                all.iter().any(|i| i.must != Tri::False && POLS.iter().any(|p| matches(&i.exp, a, *p)))
                    && !cand.iter().any(|i| POLS.iter().any(|p| matches(&i.exp, a, *p)))
            });
        if is_other_row || paged_out {
            return "extra row";
        }
        return "wrong value";
    }
    // the right elements, so the sequence is at fault (order or which rows the limits kept)
    "wrong order"
}
