//! C07 — a room definition accepted from a peer only adds entitled entries.
//! Candidates = the honest export of a richer definition transformed by every single attack
//! operator (omission, duplication, re-ordering, attacker-signed entries at several dates, replay
//! of validly signed entries across lists / groups / rooms, re-signing, re-labelling, foreign
//! source references, attacker-authored groups and definition rows), delivered through the real
//! signature check + add_room_node to a victim holding an earlier definition or none.
use crate::c10::{diff_class, err_class, Watch};
use crate::common::*;
use crate::light::signing_key_for;
use crate::rooms::*;
use crate::world::*;
use discret::verif::database::edge::Edge;
use discret::verif::database::node::Node;
use discret::verif::database::room_node::{AuthorisationNode, EntityRightNode, RoomNode, UserNode};
use discret::verif::security::Uid;
use serde_json::{json, Value};
use std::collections::BTreeSet;
use std::time::Instant;

type Tpl = Vec<(Vec<(&'static str, bool, bool)>, Vec<usize>, Vec<usize>)>;

struct Scenario {
    name: &'static str,
    template: Tpl,
    /// events the victim already has
    old: Vec<REvent>,
    /// honest events the sender has in addition
    new: Vec<REvent>,
}

fn scenarios() -> Vec<Scenario> {
    vec![
        Scenario {
            name: "S1-one-group",
            template: vec![(vec![("ns.P", true, false)], vec![1, 2], vec![])],
            old: vec![],
            new: vec![
                REvent::AddUser { group: 0, key: 3, enabled: true },
                REvent::AddRight { group: 0, entity: "ns.Q".into(), own: true, all: false },
            ],
        },
        Scenario {
            name: "S2-two-groups-admin-B",
            template: vec![
                (vec![("*", true, true)], vec![1], vec![]),
                (vec![("ns.P", true, false), ("ns.Q", true, false)], vec![2], vec![]),
            ],
            old: vec![REvent::AddAdmin { key: 1, enabled: true }],
            new: vec![
                REvent::AddAdmin { key: 1, enabled: false },
                REvent::AddUser { group: 1, key: 1, enabled: true },
            ],
        },
        Scenario {
            name: "S3-user-admin",
            template: vec![(vec![("ns.P", true, true), ("*", true, false)], vec![2], vec![1])],
            old: vec![],
            new: vec![REvent::AddUserAdmin { group: 0, key: 2, enabled: false }],
        },
        // the attacker C is a FORMER administrator: the group was last written while C was one, C was disabled
        // afterwards; whatever C signs after (or before) its tenure must be judged at the entry's own date
        Scenario {
            name: "S4-former-admin-C",
            template: vec![(vec![("ns.P", true, false)], vec![1], vec![])],
            old: vec![REvent::AddAdmin { key: 2, enabled: true }, REvent::AddRight { group: 0, entity: "ns.Q".into(), own: true, all: false }],
            new: vec![
                REvent::AddGroupWith { entity: "ns.Q".into(), own: true, all: false, key: 1 },
                REvent::AddAdmin { key: 2, enabled: false },
            ],
        },
        // the attacker C is a FORMER user administrator of the group (enabled, then disabled): what it signs into the
        // user list before or after its tenure is not entitled
        Scenario {
            name: "S5-former-user-admin-C",
            template: vec![(vec![("ns.P", true, false)], vec![1], vec![])],
            old: vec![REvent::AddUserAdmin { group: 0, key: 2, enabled: true }],
            new: vec![REvent::AddUser { group: 0, key: 3, enabled: true }, REvent::AddUserAdmin { group: 0, key: 2, enabled: false }],
        },
    ]
}

const L_ADMIN: &str = "32";
const L_AUTHS: &str = "33";
const L_RIGHTS: &str = "33";
const L_USERS: &str = "34";
const L_UADMIN: &str = "35";

fn sys_node(entity: &str, json: Value, author: usize, date: i64) -> Node {
    set_clock(date);
    let mut n = Node {
        room_id: None,
        cdate: date,
        mdate: date,
        _entity: entity.to_string(),
        _json: Some(json.to_string()),
        ..Default::default()
    };
    n.sign(&signing_key_for((author + 1) as u8)).unwrap();
    n
}

fn user_node(u: &Universe, key: usize, enabled: bool, author: usize, date: i64) -> UserNode {
    UserNode { node: sys_node("0.2", json!({"32": b64(&u.keys[key]), "33": enabled}), author, date) }
}

fn right_node(entity: &str, own: bool, all: bool, author: usize, date: i64) -> EntityRightNode {
    EntityRightNode { node: sys_node("0.3", json!({"32": entity, "33": own, "34": all}), author, date) }
}

fn edge(src: Uid, src_entity: &str, label: &str, dest: Uid, author: usize, date: i64) -> Edge {
    let mut e = Edge {
        src,
        src_entity: src_entity.to_string(),
        label: label.to_string(),
        dest,
        cdate: date,
        ..Default::default()
    };
    e.sign(&signing_key_for((author + 1) as u8)).unwrap();
    e
}

#[derive(Clone, Debug)]
enum Expect {
    /// decisions of the full honest definition
    Full,
    /// decisions of the honest definition without its last event
    FullMinusLast,
}

struct Cand {
    name: String,
    list: &'static str,
    node: RoomNode,
    expect: Expect,
}

fn dates(now: i64) -> Vec<(&'static str, i64)> {
    vec![("now", now), ("backdated-before-creation", tick(0) - 1000), ("at-creation", tick(0))]
}

/// every single transformation of the honest export `rn` by attacker identity `m`
fn candidates(u: &Universe, rn: &RoomNode, m: usize, now: i64, r2: &RoomNode, n_new: usize) -> Vec<Cand> {
    let mut c = vec![];
    let rid = rn.node.id;
    let mut push = |name: String, list: &'static str, node: RoomNode, expect: Expect| {
        c.push(Cand { name, list, node, expect });
    };
    push("honest".into(), "-", rn.clone(), Expect::Full);

    // omissions of entries (node + its reference)
    if !rn.admin_nodes.is_empty() {
        let mut x = rn.clone();
        let n = x.admin_nodes.remove(0);
        x.admin_edges.retain(|e| e.dest != n.node.id);
        push("omit-oldest-admin-entry".into(), "admin", x, Expect::Full);
    }
    if let Some(a) = rn.auth_nodes.first() {
        if !a.user_nodes.is_empty() {
            let mut x = rn.clone();
            let n = x.auth_nodes[0].user_nodes.remove(0);
            x.auth_nodes[0].user_edges.retain(|e| e.dest != n.node.id);
            push("omit-oldest-user-entry".into(), "users", x, Expect::Full);
        }
        if !a.right_nodes.is_empty() {
            let mut x = rn.clone();
            let n = x.auth_nodes[0].right_nodes.remove(0);
            x.auth_nodes[0].right_edges.retain(|e| e.dest != n.node.id);
            push("omit-oldest-right-entry".into(), "rights", x, Expect::Full);
        }
    }
    if rn.auth_nodes.len() > 1 {
        let mut x = rn.clone();
        let a = x.auth_nodes.remove(0);
        x.auth_edges.retain(|e| e.dest != a.node.id);
        push("omit-group".into(), "authorisations", x, Expect::Full);
    }
    // omit the newest entry anywhere (an honest subset)
    if n_new > 0 {
        let mut newest: Option<(i64, Uid)> = None;
        let mut consider = |n: &Node| {
            if newest.map(|(d, _)| n.mdate > d).unwrap_or(true) {
                newest = Some((n.mdate, n.id));
            }
        };
        for n in &rn.admin_nodes {
            consider(&n.node);
        }
        for a in &rn.auth_nodes {
            for n in &a.user_nodes {
                consider(&n.node);
            }
            for n in &a.user_admin_nodes {
                consider(&n.node);
            }
            for n in &a.right_nodes {
                consider(&n.node);
            }
        }
        if let Some((_, id)) = newest {
            let mut x = rn.clone();
            x.admin_nodes.retain(|n| n.node.id != id);
            x.admin_edges.retain(|e| e.dest != id);
            for a in &mut x.auth_nodes {
                a.user_nodes.retain(|n| n.node.id != id);
                a.user_edges.retain(|e| e.dest != id);
                a.user_admin_nodes.retain(|n| n.node.id != id);
                a.user_admin_edges.retain(|e| e.dest != id);
                a.right_nodes.retain(|n| n.node.id != id);
                a.right_edges.retain(|e| e.dest != id);
            }
            push("omit-newest-entry".into(), "-", x, Expect::FullMinusLast);
        }
    }
    // duplication, re-ordering
    {
        let mut x = rn.clone();
        if let Some(n) = x.admin_nodes.first().cloned() {
            x.admin_nodes.push(n.clone());
            if let Some(e) = x.admin_edges.iter().find(|e| e.dest == n.node.id).cloned() {
                x.admin_edges.push(e);
            }
        }
        if let Some(a) = x.auth_nodes.first_mut() {
            if let Some(n) = a.user_nodes.first().cloned() {
                a.user_nodes.push(n.clone());
                if let Some(e) = a.user_edges.iter().find(|e| e.dest == n.node.id).cloned() {
                    a.user_edges.push(e);
                }
            }
        }
        push("duplicate-entries".into(), "-", x, Expect::Full);
        let mut x = rn.clone();
        x.admin_nodes.reverse();
        x.admin_edges.reverse();
        x.auth_nodes.reverse();
        x.auth_edges.reverse();
        for a in &mut x.auth_nodes {
            a.user_nodes.reverse();
            a.user_edges.reverse();
            a.right_nodes.reverse();
            a.right_edges.reverse();
            a.user_admin_nodes.reverse();
            a.user_admin_edges.reverse();
        }
        push("reverse-all-lists".into(), "-", x, Expect::Full);
    }
    // attacker signed entries in every list at several dates
    for (dn, d) in dates(now) {
        let mut x = rn.clone();
        let n = user_node(u, m, true, m, d);
        x.admin_edges.push(edge(rid, "0.0", L_ADMIN, n.node.id, m, d));
        x.admin_nodes.push(n);
        push(format!("attacker-signed-entry@{}", dn), "admin", x, Expect::Full);
        if let Some(a0) = rn.auth_nodes.first() {
            let aid = a0.node.id;
            let mut x = rn.clone();
            let n = user_node(u, m, true, m, d);
            x.auth_nodes[0].user_edges.push(edge(aid, "0.1", L_USERS, n.node.id, m, d));
            x.auth_nodes[0].user_nodes.push(n);
            push(format!("attacker-signed-entry@{}", dn), "users", x, Expect::Full);
            let mut x = rn.clone();
            let n = user_node(u, m, true, m, d);
            x.auth_nodes[0].user_admin_edges.push(edge(aid, "0.1", L_UADMIN, n.node.id, m, d));
            x.auth_nodes[0].user_admin_nodes.push(n);
            push(format!("attacker-signed-entry@{}", dn), "user_admin", x, Expect::Full);
            let mut x = rn.clone();
            let n = right_node("*", true, true, m, d);
            x.auth_nodes[0].right_edges.push(edge(aid, "0.1", L_RIGHTS, n.node.id, m, d));
            x.auth_nodes[0].right_nodes.push(n);
            push(format!("attacker-signed-entry@{}", dn), "rights", x, Expect::Full);
        }
        // the same entries in the group created last (a group the victim may never have seen: the checks of a new
        // group in a known room are not those of a known group)
        if rn.auth_nodes.len() > 1 {
            let gi = rn.auth_nodes.len() - 1;
            let aid = rn.auth_nodes[gi].node.id;
            let mut x = rn.clone();
            let n = user_node(u, m, true, m, d);
            x.auth_nodes[gi].user_edges.push(edge(aid, "0.1", L_USERS, n.node.id, m, d));
            x.auth_nodes[gi].user_nodes.push(n);
            push(format!("attacker-signed-entry@{}", dn), "users@newest-group", x, Expect::Full);
            let mut x = rn.clone();
            let n = user_node(u, m, true, m, d);
            x.auth_nodes[gi].user_admin_edges.push(edge(aid, "0.1", L_UADMIN, n.node.id, m, d));
            x.auth_nodes[gi].user_admin_nodes.push(n);
            push(format!("attacker-signed-entry@{}", dn), "user_admin@newest-group", x, Expect::Full);
            let mut x = rn.clone();
            let n = right_node("*", true, true, m, d);
            x.auth_nodes[gi].right_edges.push(edge(aid, "0.1", L_RIGHTS, n.node.id, m, d));
            x.auth_nodes[gi].right_nodes.push(n);
            push(format!("attacker-signed-entry@{}", dn), "rights@newest-group", x, Expect::Full);
        }
        // attacker authored group granting itself everything
        let mut x = rn.clone();
        let an = sys_node("0.1", json!({"32": "evil"}), m, d);
        let un = user_node(u, m, true, m, d);
        let rnode = right_node("*", true, true, m, d);
        let auth = AuthorisationNode {
            node: an.clone(),
            last_modified: d,
            right_edges: vec![edge(an.id, "0.1", L_RIGHTS, rnode.node.id, m, d)],
            right_nodes: vec![rnode],
            user_edges: vec![edge(an.id, "0.1", L_USERS, un.node.id, m, d)],
            user_nodes: vec![un],
            user_admin_edges: vec![],
            user_admin_nodes: vec![],
            need_update: true,
        };
        x.auth_edges.push(edge(rid, "0.0", L_AUTHS, an.id, m, d));
        x.auth_nodes.push(auth);
        push(format!("attacker-authored-group@{}", dn), "authorisations", x, Expect::Full);
    }
    // rows that only CLAIM the administrator's key: an entry naming the attacker with the creator's verifying key
    // and a signature that is not the creator's (the attacker's own signature over the same digest), and an
    // existing honest entry whose content was changed after signing; one candidate per list
    {
        let forged_user = |enabled: bool| -> UserNode {
            let mut n = user_node(u, m, enabled, m, now);
            n.node.verifying_key = u.keys[0].clone();
            n
        };
        let mut x = rn.clone();
        let n = forged_user(true);
        x.admin_edges.push(edge(rid, "0.0", L_ADMIN, n.node.id, m, now));
        x.admin_nodes.push(n);
        push("unsigned-entry-claiming-creator-key".into(), "admin", x, Expect::Full);
        if let Some(a0) = rn.auth_nodes.first() {
            let aid = a0.node.id;
            let mut x = rn.clone();
            let n = forged_user(true);
            x.auth_nodes[0].user_edges.push(edge(aid, "0.1", L_USERS, n.node.id, m, now));
            x.auth_nodes[0].user_nodes.push(n);
            push("unsigned-entry-claiming-creator-key".into(), "users", x, Expect::Full);
            let mut x = rn.clone();
            let n = forged_user(true);
            x.auth_nodes[0].user_admin_edges.push(edge(aid, "0.1", L_UADMIN, n.node.id, m, now));
            x.auth_nodes[0].user_admin_nodes.push(n);
            push("unsigned-entry-claiming-creator-key".into(), "user_admin", x, Expect::Full);
            let mut x = rn.clone();
            let mut n = right_node("*", true, true, m, now);
            n.node.verifying_key = u.keys[0].clone();
            x.auth_nodes[0].right_edges.push(edge(aid, "0.1", L_RIGHTS, n.node.id, m, now));
            x.auth_nodes[0].right_nodes.push(n);
            push("unsigned-entry-claiming-creator-key".into(), "rights", x, Expect::Full);
        }
        // content of an honest entry changed after signing (names the attacker instead)
        let retarget = |n: &mut Node| {
            n._json = Some(json!({"32": b64(&u.keys[m]), "33": true}).to_string());
        };
        if !rn.admin_nodes.is_empty() {
            let mut x = rn.clone();
            retarget(&mut x.admin_nodes[0].node);
            push("honest-entry-altered-after-signing".into(), "admin", x, Expect::Full);
        }
        for (gi, a) in rn.auth_nodes.iter().enumerate() {
            if !a.user_nodes.is_empty() {
                let mut x = rn.clone();
                retarget(&mut x.auth_nodes[gi].user_nodes[0].node);
                push("honest-entry-altered-after-signing".into(), "users", x, Expect::Full);
            }
            if !a.user_admin_nodes.is_empty() {
                let mut x = rn.clone();
                retarget(&mut x.auth_nodes[gi].user_admin_nodes[0].node);
                push("honest-entry-altered-after-signing".into(), "user_admin", x, Expect::Full);
            }
            if !a.right_nodes.is_empty() {
                let mut x = rn.clone();
                x.auth_nodes[gi].right_nodes[0].node._json = Some(json!({"32": "*", "33": true, "34": true}).to_string());
                push("honest-entry-altered-after-signing".into(), "rights", x, Expect::Full);
            }
            break;
        }
    }
    // replay of a validly signed entry of this room in another place (reference signed by the attacker)
    let find_user_entry = |rn: &RoomNode, key: usize| -> Option<(usize, UserNode)> {
        for (gi, a) in rn.auth_nodes.iter().enumerate() {
            for n in &a.user_nodes {
                if let Some(j) = &n.node._json {
                    if j.contains(&b64(&u.keys[key])) {
                        return Some((gi, n.clone()));
                    }
                }
            }
        }
        None
    };
    if let Some((gi, n)) = find_user_entry(rn, m) {
        let mut x = rn.clone();
        x.admin_edges.push(edge(rid, "0.0", L_ADMIN, n.node.id, m, now));
        x.admin_nodes.push(n.clone());
        push("replay-own-user-entry-into".into(), "admin", x, Expect::Full);
        let mut x = rn.clone();
        let aid = x.auth_nodes[gi].node.id;
        x.auth_nodes[gi].user_admin_edges.push(edge(aid, "0.1", L_UADMIN, n.node.id, m, now));
        x.auth_nodes[gi].user_admin_nodes.push(n.clone());
        push("replay-own-user-entry-into".into(), "user_admin", x, Expect::Full);
        if rn.auth_nodes.len() > 1 {
            let other = (gi + 1) % rn.auth_nodes.len();
            let mut x = rn.clone();
            let aid = x.auth_nodes[other].node.id;
            x.auth_nodes[other].user_edges.push(edge(aid, "0.1", L_USERS, n.node.id, m, now));
            x.auth_nodes[other].user_nodes.push(n.clone());
            push("replay-own-user-entry-into".into(), "users-of-other-group", x, Expect::Full);
        }
        // re-label: the entry leaves the users list and arrives in user_admin with an attacker reference
        let mut x = rn.clone();
        let aid = x.auth_nodes[gi].node.id;
        x.auth_nodes[gi].user_nodes.retain(|y| y.node.id != n.node.id);
        x.auth_nodes[gi].user_edges.retain(|e| e.dest != n.node.id);
        x.auth_nodes[gi].user_admin_edges.push(edge(aid, "0.1", L_UADMIN, n.node.id, m, now));
        x.auth_nodes[gi].user_admin_nodes.push(n.clone());
        push("relabel-own-user-entry-as".into(), "user_admin", x, Expect::Full);
    }
    // replay of a validly signed entry taken from another room (r2: the attacker is a user there)
    for a in &r2.auth_nodes {
        for n in &a.user_nodes {
            if n.node._json.as_ref().map(|j| j.contains(&b64(&u.keys[m]))).unwrap_or(false) {
                let mut x = rn.clone();
                x.admin_edges.push(edge(rid, "0.0", L_ADMIN, n.node.id, m, now));
                x.admin_nodes.push(n.clone());
                push("replay-entry-of-another-room-into".into(), "admin", x, Expect::Full);
                if let Some(a0) = rn.auth_nodes.first() {
                    let mut x = rn.clone();
                    x.auth_nodes[0].user_edges.push(edge(a0.node.id, "0.1", L_USERS, n.node.id, m, now));
                    x.auth_nodes[0].user_nodes.push(n.clone());
                    push("replay-entry-of-another-room-into".into(), "users", x, Expect::Full);
                    // with the ORIGINAL, admin signed reference of the other room (source is not the parent)
                    if let Some(e) = a.user_edges.iter().find(|e| e.dest == n.node.id) {
                        let mut x = rn.clone();
                        x.auth_nodes[0].user_edges.push(e.clone());
                        x.auth_nodes[0].user_nodes.push(n.clone());
                        push("replay-entry-and-reference-of-another-room-into".into(), "users", x, Expect::Full);
                    }
                }
            }
        }
        for n in &a.right_nodes {
            if let Some(a0) = rn.auth_nodes.first() {
                let mut x = rn.clone();
                x.auth_nodes[0].right_edges.push(edge(a0.node.id, "0.1", L_RIGHTS, n.node.id, m, now));
                x.auth_nodes[0].right_nodes.push(n.clone());
                push("replay-right-of-another-room-into".into(), "rights", x, Expect::Full);
                break;
            }
        }
    }
    // a whole group of another room (validly signed by the common admin) grafted with an attacker reference
    if let Some(a) = r2.auth_nodes.first() {
        let mut x = rn.clone();
        x.auth_edges.push(edge(rid, "0.0", L_AUTHS, a.node.id, m, now));
        x.auth_nodes.push(a.clone());
        push("replay-group-of-another-room".into(), "authorisations", x, Expect::Full);
    }
    // re-sign an existing entry with the attacker's key
    if let Some(a0) = rn.auth_nodes.first() {
        if let Some(n) = a0.user_nodes.first() {
            let mut x = rn.clone();
            let mut n2 = n.node.clone();
            n2.sign(&signing_key_for((m + 1) as u8)).unwrap();
            x.auth_nodes[0].user_nodes[0].node = n2;
            push("resign-existing-entry".into(), "users", x, Expect::Full);
        }
    }
    // definition rows re-authored by the attacker with a newer date
    {
        let mut x = rn.clone();
        x.node.mdate = now;
        x.node.sign(&signing_key_for((m + 1) as u8)).unwrap();
        push("attacker-newer-room-row".into(), "room", x, Expect::Full);
        if !rn.auth_nodes.is_empty() {
            let mut x = rn.clone();
            x.auth_nodes[0].node.mdate = now;
            x.auth_nodes[0].node._json = Some(json!({"32": "renamed"}).to_string());
            x.auth_nodes[0].node.sign(&signing_key_for((m + 1) as u8)).unwrap();
            push("attacker-newer-group-row".into(), "authorisations", x, Expect::Full);
        }
    }
    c
}

fn sys_rows_sql() -> &'static str {
    // kind, identity, entity, date, signature, author
    "SELECT 'n', hex(id), _entity, mdate, hex(_signature), hex(verifying_key) FROM _node WHERE _entity IN ('0.0','0.1','0.2','0.3')
     UNION ALL SELECT 'e', hex(src)||':'||label||':'||hex(dest), src_entity, cdate, hex(signature), hex(verifying_key) FROM _edge WHERE src_entity IN ('0.0','0.1')"
}

/// "never removes or alters an existing admin, user, right or group entry":
/// entry rows (UserAuth, EntityRight) and every reference must survive unchanged; the definition rows
/// (Room, Authorisation) must survive and may only be replaced by a version signed by the admin `admin_key`
fn rows_preserved(before: &BTreeSet<Vec<Sv>>, after: &BTreeSet<Vec<Sv>>, admin_key: &[u8]) -> Option<String> {
    let admin_hex = hex::encode_upper(admin_key);
    for b in before {
        if after.contains(b) {
            continue;
        }
        let kind = b[0].text().unwrap_or("");
        let ent = b[2].text().unwrap_or("");
        let same_id: Vec<&Vec<Sv>> = after.iter().filter(|a| a[0] == b[0] && a[1] == b[1] && a[2] == b[2]).collect();
        if same_id.is_empty() {
            return Some(format!("removed:{}:{}", kind, ent));
        }
        if kind == "n" && (ent == "0.0" || ent == "0.1") {
            for a in same_id {
                if a[5].text() != Some(admin_hex.as_str()) {
                    return Some(format!("definition-row-reauthored-by-non-admin:{}", ent));
                }
            }
        } else {
            return Some(format!("altered:{}:{}", kind, ent));
        }
    }
    None
}

async fn wire(node: &RoomNode) -> RoomNode {
    let bytes = bincode::serialize(node).unwrap();
    bincode::deserialize(&bytes).unwrap()
}

/// deliver a candidate as the synchronisation does: signature check then add_room_node
async fn deliver(victim: &FPeer, cand: &RoomNode) -> Result<(), String> {
    let n = wire(cand).await;
    let n = victim
        .services
        .signature_verification
        .verify_room_node(n)
        .await
        .map_err(|e| format!("signature: {}", e))?;
    let r = victim.db.add_room_node(n).await.map_err(|e| e.to_string());
    victim.barrier().await;
    r
}

struct Built {
    room: URoom,
    ro_old: RO,
    ro_full: RO,
    ro_minus_last: RO,
    export_full: RoomNode,
    now: i64,
}

/// build scenario `sc` on the sender A; the victim (peer index `v`) gets the old part unless `fresh`
async fn build(u: &Universe, sc: &Scenario, v: usize, fresh: bool) -> Result<Built, String> {
    let mut room = u.create_room(0, tick(0), &sc.template).await?;
    let mut k = 1;
    for ev in &sc.old {
        if !u.apply_event(&mut room, ev, 0, tick(4 * k)).await? {
            return Err("honest old event refused".into());
        }
        k += 1;
    }
    if !fresh {
        transfer_room_def(&u.peers[v], &u.peers[0], room.id).await?;
    }
    let ro_old = room.ro.clone();
    let mut ro_minus_last = room.ro.clone();
    for (i, ev) in sc.new.iter().enumerate() {
        if !u.apply_event(&mut room, ev, 0, tick(4 * k)).await? {
            return Err("honest new event refused".into());
        }
        if i + 1 < sc.new.len() {
            ro_minus_last = room.ro.clone();
        }
        k += 1;
    }
    let export_full = u.peers[0]
        .db
        .get_room_node(room.id)
        .await
        .map_err(|e| e.to_string())?
        .ok_or("no export")?;
    let mut export_full = wire(&export_full).await;
    // the export lists groups in storage order (random ids): put them in creation order so that
    // "the first group" means the same thing on every run
    let pos = |id: &Uid| room.groups.iter().position(|g| g == id).unwrap_or(usize::MAX);
    export_full.auth_nodes.sort_by_key(|a| pos(&a.node.id));
    export_full.auth_edges.sort_by_key(|e| pos(&e.dest));
    Ok(Built {
        ro_full: room.ro.clone(),
        room,
        ro_old,
        ro_minus_last,
        export_full,
        now: tick(4 * k + 1),
    })
}

fn ticks(now: i64) -> Vec<i64> {
    let mut t = vec![tick(0) - 2000, tick(0) - 1, tick(0), tick(1)];
    let mut d = tick(4);
    while d < now {
        t.push(d - 1);
        t.push(d);
        d += DAY;
    }
    t.push(now);
    t.push(now + DAY);
    t
}

async fn run_cases(root: &std::path::PathBuf, out: &mut Outcome, shard: (usize, usize), only: Option<&Value>, tier: Tier) -> Result<(), String> {
    set_clock(tick(0));
    let u = Universe::start(root).await?;
    let mut w = Watch::new(&u).await;
    // a second room where C and D are users: source of validly signed foreign entries
    let r2 = u.create_room(0, tick(0), &[(vec![("*", true, true)], vec![1, 2, 3], vec![])]).await?;
    let r2_export = wire(&u.peers[0].db.get_room_node(r2.id).await.map_err(|e| e.to_string())?.unwrap()).await;
    let mut case_no = 0usize;
    let mut group_no = 0usize;
    for sc in scenarios() {
        for fresh in [false, true] {
            for m in [2usize, 3] {
                let v = 1usize; // victim device: B
                let mut built: Option<Built> = None;
                // candidate names are stable: enumerate on a probe build
                let probe = build(&u, &sc, v, true).await?;
                w.drain()?;
                let names: Vec<(String, &'static str)> = candidates(&u, &probe.export_full, m, probe.now, &r2_export, sc.new.len())
                    .into_iter()
                    .map(|c| (c.name, c.list))
                    .collect();
                group_no += 1;
                let pairs_too = tier == Tier::Thorough || only.map(|o| o["candidate"].as_str().unwrap_or("").contains('+')).unwrap_or(false);
                if pairs_too && only.is_none() && group_no % shard.1 != shard.0 {
                    continue;
                }
                // a case = one transformation (quick) or also two composed transformations (thorough)
                let mut specs: Vec<Vec<usize>> = (0..names.len()).map(|i| vec![i]).collect();
                let mut clean: Vec<usize> = vec![];
                let mut si = 0usize;
                while si < specs.len() {
                    let spec = specs[si].clone();
                    si += 1;
                    let cname_s: String = spec.iter().map(|i| names[*i].0.clone()).collect::<Vec<_>>().join("+");
                    let clist_s: String = spec.iter().map(|i| names[*i].1.to_string()).collect::<Vec<_>>().join("+");
                    let (cname, clist) = (&cname_s, &clist_s);
                    case_no += 1;
                    if !pairs_too && case_no % shard.1 != shard.0 {
                        continue;
                    }
                    if let Some(o) = only {
                        if o["scenario"] != sc.name || o["fresh"] != fresh || o["attacker"] != m || o["candidate"] != *cname || o["list"] != *clist {
                            // composed candidates are generated after the single ones
                            if si == names.len() && pairs_too {
                                for a in 0..names.len() {
                                    for b2 in (a + 1)..names.len() {
                                        specs.push(vec![a, b2]);
                                    }
                                }
                            }
                            continue;
                        }
                    }
                    // a victim that changed (or a fresh one) needs a new room
                    if built.is_none() {
                        built = Some(build(&u, &sc, v, fresh).await?);
                        out.transitions += 1;
                    }
                    let b = built.as_ref().unwrap();
                    let mut node = b.export_full.clone();
                    let mut expect = Expect::Full;
                    let mut applicable = true;
                    for &ci in &spec {
                        let cands = candidates(&u, &node, m, b.now, &r2_export, sc.new.len());
                        match cands.into_iter().find(|c| c.name == names[ci].0 && c.list == names[ci].1) {
                            Some(c) => {
                                if spec.len() == 1 {
                                    expect = c.expect.clone();
                                }
                                node = c.node;
                            }
                            None => {
                                applicable = false;
                                break;
                            }
                        }
                    }
                    if !applicable {
                        out.count("composition-not-applicable");
                        continue;
                    }
                    let cand = &Cand { name: cname_s.clone(), list: "-", node, expect };
                    let viol_before: u64 = out.outcomes.iter().filter(|(k, _)| k.starts_with("viol:")).map(|(_, v)| *v).sum();
                    set_clock(b.now);
                    w.drain()?;
                    let tk = ticks(b.now);
                    let victim = &u.peers[v];
                    let before_rows: BTreeSet<Vec<Sv>> = victim.sql(sys_rows_sql()).await?.into_iter().collect();
                    let before_fp = fingerprint(victim).await?;
                    let before_room = w.last[v].get(&b.room.id).cloned();
                    let res = deliver(victim, &cand.node).await;
                    out.evaluations += 1;
                    out.transitions += 1;
                    w.drain()?;
                    let after_rows: BTreeSet<Vec<Sv>> = victim.sql(sys_rows_sql()).await?.into_iter().collect();
                    let after_fp = fingerprint(victim).await?;
                    let after_room = w.last[v].get(&b.room.id).cloned();
                    let replay = json!({"scenario": sc.name, "fresh": fresh, "attacker": m, "candidate": cname, "list": clist});
                    let role = if m == 2 { "member" } else { "outsider" };
                    let base = format!("cand={} list={} victim={}", cname, clist, if fresh { "fresh" } else { "has-earlier" });
                    let mut changed = false;
                    match &res {
                        Ok(()) => {
                            // nothing removed or altered
                            if let Some(what) = rows_preserved(&before_rows, &after_rows, &u.keys[0]) {
                                out.violation(format!("{} clause=stored-entry-{}", base, what), format!("accepting the definition removed or altered stored rows ({})", what), replay.clone());
                            }
                            changed = before_fp != after_fp;
                            let expected = match cand.expect {
                                Expect::Full => b.ro_full.matrix(&tk),
                                Expect::FullMinusLast => b.ro_minus_last.matrix(&tk),
                            };
                            let alt = b.ro_old.matrix(&tk); // accepted with nothing to add
                            match &after_room {
                                Some(room) => {
                                    let mtx = room_matrix(room, &u.keys, &b.room.groups, &tk);
                                    // the attacker's own group is not in room.groups: probe its effect through can()
                                    // a victim that never saw the room cannot notice an omission: the result is the
                                    // definition made of the entries it was given, which only an oracle replaying the
                                    // candidate could predict; omissions towards a fresh victim are not judged
                                    let skip = fresh && cname.starts_with("omit-");
                                    if skip {
                                        out.count("not-judged:omission-towards-fresh-victim");
                                    } else if let Some(d) = diff_class(&expected, &mtx) {
                                        let unchanged_ok = !changed && !fresh && diff_class(&alt, &mtx).is_none() && cname != "honest";
                                        if !unchanged_ok {
                                            out.violation(format!("{} clause=decisions-differ:{}", base, d), format!("accepted; resulting decisions differ from the oracle ({})", d), replay.clone());
                                        }
                                    }
                                    out.count("accepted");
                                }
                                None => {
                                    out.violation(format!("{} clause=accepted-without-room", base), "accepted but no room is known afterwards", replay.clone());
                                }
                            }
                        }
                        Err(e) => {
                            out.count(&format!("refused:{}", err_class(e)));
                            if before_fp != after_fp || before_rows != after_rows {
                                out.violation(format!("{} clause=refused-but-changed", base), format!("refused ({}) but the stored state changed", e), replay.clone());
                            }
                            let same = match (&before_room, &after_room) {
                                (Some(a), Some(b2)) => room_matrix(a, &u.keys, &b.room.groups, &tk) == room_matrix(b2, &u.keys, &b.room.groups, &tk),
                                (None, None) => true,
                                _ => false,
                            };
                            if !same {
                                out.violation(format!("{} clause=refused-but-room-changed", base), "refused but the in-memory room changed", replay.clone());
                            }
                            if cname == "honest" {
                                out.violation(format!("{} clause=honest-refused:{}", base, err_class(e)), format!("honest definition refused: {}", e), replay.clone());
                            }
                        }
                    }
                    out.nontrivial(&(cname, clist, role, fresh, res.is_ok()));
                    out.state(&(after_room.as_ref().map(|r| room_matrix(r, &u.keys, &b.room.groups, &tk))));
                    if out.samples.len() < 6 && out.evaluations % 13 == 1 {
                        out.sample(json!({"case": replay, "verdict": res.as_ref().map(|_| "accepted").map_err(|e| err_class(e)).unwrap_or_else(|e| e.leak())}));
                    }
                    if only.is_some() {
                        println!("  case {} -> {:?}", replay, res);
                    }
                    if changed || fresh || res.is_ok() {
                        built = None;
                    }
                    let viol_after: u64 = out.outcomes.iter().filter(|(k, _)| k.starts_with("viol:")).map(|(_, v)| *v).sum();
                    if spec.len() == 1 && viol_after == viol_before && cname != "honest" && matches!(cand.expect, Expect::Full) {
                        clean.push(spec[0]);
                    }
                    // once the single transformations of this group are done, compose the clean ones pairwise
                    if si == names.len() && pairs_too && only.is_none() {
                        for a in 0..clean.len() {
                            for b2 in (a + 1)..clean.len() {
                                specs.push(vec![clean[a], clean[b2]]);
                            }
                        }
                    }
                }
            }
        }
    }
    // honest exports delivered in every order and multiplicity
    for (si, sc) in scenarios().into_iter().enumerate() {
        if only.is_some() || si % shard.1 != shard.0 % scenarios().len().max(1) && shard.1 > 1 && si != shard.0 {
            continue;
        }
        let perms: Vec<Vec<usize>> = vec![
            vec![0, 1, 2], vec![0, 2, 1], vec![1, 0, 2], vec![1, 2, 0], vec![2, 0, 1], vec![2, 1, 0],
            vec![2, 2, 0, 0, 1, 1], vec![0, 0, 2, 1, 1, 2], vec![1, 2, 2, 0], vec![2, 0, 2], vec![0, 2, 0], vec![1, 1, 2, 0, 2],
        ];
        for perm in perms {
            let v = 1usize;
            let mut room = u.create_room(0, tick(0), &sc.template).await?;
            let mut exports = vec![];
            let mut k = 1;
            exports.push(wire(&u.peers[0].db.get_room_node(room.id).await.map_err(|e| e.to_string())?.unwrap()).await);
            for ev in sc.old.iter().chain(sc.new.iter()) {
                u.apply_event(&mut room, ev, 0, tick(4 * k)).await?;
                k += 1;
                exports.push(wire(&u.peers[0].db.get_room_node(room.id).await.map_err(|e| e.to_string())?.unwrap()).await);
            }
            let n = exports.len();
            let idx = |i: usize| -> usize { match i { 0 => 0, 1 => n / 2, _ => n - 1 } };
            let mut delivered_last = false;
            for &i in &perm {
                let e = &exports[idx(i)];
                let r = deliver(&u.peers[v], e).await;
                out.transitions += 1;
                if idx(i) == n - 1 {
                    delivered_last = true;
                }
                if let Err(e) = r {
                    out.violation(format!("honest-order clause=honest-refused:{}", err_class(&e)), format!("honest export refused in order {:?}: {}", perm, e), json!({"scenario": sc.name, "order": perm}));
                }
            }
            out.evaluations += 1;
            w.drain()?;
            let now = tick(4 * k + 1);
            let tk = ticks(now);
            if delivered_last {
                if let Some(r) = w.last[v].get(&room.id) {
                    if let Some(d) = diff_class(&room.ro.matrix(&tk), &room_matrix(r, &u.keys, &room.groups, &tk)) {
                        out.violation(format!("honest-order clause=decisions-differ:{}", d), format!("honest exports in order {:?} do not converge to the full definition", perm), json!({"scenario": sc.name, "order": perm}));
                    }
                }
            }
            out.nontrivial(&("order", sc.name, perm.len()));
        }
    }
    Ok(())
}

fn replay(path: &str) -> i32 {
    let text = std::fs::read_to_string(path).expect("replay file");
    let v: Value = serde_json::from_str(&text).expect("json");
    let r = v["replay"].clone();
    let root = scratch_root();
    let _g = ScratchGuard(root.clone());
    let rt = runtime();
    for round in 0..2 {
        let mut out = Outcome::default();
        let res = rt.block_on(run_cases(&root, &mut out, (0, 1), Some(&r), Tier::Quick));
        println!("replay round {}: {:?}", round, res);
        for v in &out.violations {
            println!("  {} :: {}", v.key, v.what);
        }
    }
    0
}

pub fn run(args: &Args) -> i32 {
    if let Some(p) = &args.replay {
        return replay(p);
    }
    let start = Instant::now();
    if let Some((i, n)) = args.shard {
        let root = scratch_root();
        let _g = ScratchGuard(root.clone());
        let rt = runtime();
        let mut out = Outcome::default();
        if let Err(e) = rt.block_on(run_cases(&root, &mut out, (i, n), None, args.tier)) {
            out.machinery_errors.push(e);
        }
        emit_shard_outcome(&out);
        return 0;
    }
    let mut out = run_sharded(args, ncpu().min(12));
    out.traces_validated = out.evaluations;
    let meta = CheckMeta {
        prop: "C07",
        level: "model_checking",
        rule: "3 scenarios (victim's earlier definition, sender's richer one) x victim {has earlier version, never saw the room} x attacker {member, outsider} x every single transformation of the honest export (about 45 operators x dates x lists) delivered through the real signature check and add_room_node, plus 12 delivery orders/multiplicities of honest exports per scenario; states = distinct resulting decision matrices; non-trivial = distinct (operator, list, attacker, victim kind, verdict)".into(),
        bounds: json!({"scenarios": scenarios().len(), "attackers": 2, "victims": 2, "compositions": args.tier.pick("single transformations", "single transformations + every pair of individually clean ones")}),
        assumptions: vec![
            "member and outsider attackers are never entitled to add anything, so whatever they sign is never legitimate; honest entries are legitimate".into(),
            "resulting decisions are read from the RoomModified event the victim emits".into(),
            "quick: single transformations; thorough: also every pair of transformations that were individually judged clean (a pair containing a known-bad transformation would only repeat its finding)".into(),
        ],
        exhaustive_claim: true,
    };
    finish(args, &meta, &out, start)
}
