//! C20 — Room synchronisation locks: exclusive, bounded, never lost.
//!
//! Part A: explicit-state breadth first search on the REAL scheduler actor `RoomLockService`
//! (one fresh actor per replayed history; canonical state = verification probe + harness bookkeeping,
//! minimised over renamings of circuits and rooms).
//! Part B (module `c20_b`): exit paths of the real `LocalPeerService::start` connection task.
use crate::c20_b;
use crate::common::*;
use discret::verif::security::Uid;
use discret::verif::synchronisation::room_locking_service::RoomLockService;
use futures::FutureExt;
use serde_json::{json, Value};
use std::collections::{HashSet, VecDeque};
use std::panic::AssertUnwindSafe;
use std::time::Instant;
use tokio::sync::mpsc;

pub const NC: usize = 3;
pub const NR: usize = 3;

pub fn circuit(p: usize) -> [u8; 32] {
    let mut c = [0x40u8; 32];
    c[0] = p as u8;
    c
}
pub fn room(r: usize) -> Uid {
    let mut u = [0x70u8; 16];
    u[0] = r as u8;
    u
}

/// One event of the alphabet.
#[derive(Clone, Copy, Debug, PartialEq, Eq, Hash)]
pub enum Ev {
    /// circuit `p` requests `rooms[..n]` (in this order) with a new reply channel or a clone of its current one
    Req { p: u8, n: u8, rooms: [u8; 3], newch: bool },
    /// circuit `p` sends `Unlock(r)`, whether it holds `r` or not (the message carries no owner)
    Unlock { p: u8, r: u8 },
    /// the receiver of circuit `p` is dropped (connection ended)
    Drop { p: u8 },
}
impl Ev {
    pub fn show(&self) -> String {
        match self {
            Ev::Req { p, n, rooms, newch } => format!(
                "request(c{}, [{}], {})",
                p,
                rooms[..*n as usize].iter().map(|r| format!("r{}", r)).collect::<Vec<_>>().join(","),
                if *newch { "new channel" } else { "same channel" }
            ),
            Ev::Unlock { p, r } => format!("unlock(r{}) sent by c{}", r, p),
            Ev::Drop { p } => format!("drop receiver of c{}", p),
        }
    }
    pub fn to_json(&self) -> Value {
        match self {
            Ev::Req { p, n, rooms, newch } => json!({"req": p, "rooms": rooms[..*n as usize], "new_channel": newch}),
            Ev::Unlock { p, r } => json!({"unlock": r, "by": p}),
            Ev::Drop { p } => json!({"drop": p}),
        }
    }
    pub fn from_json(v: &Value) -> Option<Ev> {
        if let Some(p) = v.get("req") {
            let list: Vec<u8> = v["rooms"].as_array()?.iter().map(|x| x.as_u64().unwrap_or(0) as u8).collect();
            let mut rooms = [0u8; 3];
            for (i, r) in list.iter().enumerate().take(3) {
                rooms[i] = *r;
            }
            return Some(Ev::Req {
                p: p.as_u64()? as u8,
                n: list.len().min(3) as u8,
                rooms,
                newch: v["new_channel"].as_bool()?,
            });
        }
        if let Some(r) = v.get("unlock") {
            return Some(Ev::Unlock { p: v["by"].as_u64()? as u8, r: r.as_u64()? as u8 });
        }
        v.get("drop").map(|p| Ev::Drop { p: p.as_u64().unwrap_or(0) as u8 })
    }
}

/// A slice of the event space: which circuits/rooms exist and how many rooms one request may name.
#[derive(Clone, Copy, Debug)]
pub struct Scope {
    pub name: &'static str,
    pub nc: usize,
    pub nr: usize,
    pub max_req: usize,
}

/// every non-empty ordered selection of at most `max` distinct rooms out of `nr`
fn room_orderings(nr: usize, max: usize) -> Vec<Vec<u8>> {
    fn rec(nr: usize, len: usize, cur: &mut Vec<u8>, res: &mut Vec<Vec<u8>>) {
        if cur.len() == len {
            res.push(cur.clone());
            return;
        }
        for r in 0..nr as u8 {
            if !cur.contains(&r) {
                cur.push(r);
                rec(nr, len, cur, res);
                cur.pop();
            }
        }
    }
    let mut res: Vec<Vec<u8>> = vec![];
    for len in 1..=max.min(nr) {
        rec(nr, len, &mut vec![], &mut res);
    }
    res
}

/// the alphabet of a scope, simplest first
pub fn alphabet(sc: &Scope) -> Vec<Ev> {
    let mut a = vec![];
    for list in room_orderings(sc.nr, sc.max_req) {
        for p in 0..sc.nc as u8 {
            for newch in [true, false] {
                let mut rooms = [0u8; 3];
                for (i, r) in list.iter().enumerate() {
                    rooms[i] = *r;
                }
                a.push(Ev::Req { p, n: list.len() as u8, rooms, newch });
            }
        }
    }
    for p in 0..sc.nc as u8 {
        for r in 0..sc.nr as u8 {
            a.push(Ev::Unlock { p, r });
        }
    }
    for p in 0..sc.nc as u8 {
        a.push(Ev::Drop { p });
    }
    a
}

/// what the probe of the real actor shows, ids replaced by their fixed small index
#[derive(Clone, Debug, Default, PartialEq, Eq, Hash)]
pub struct Probe {
    /// pending rooms per circuit, in queue order (front first), rooms in deque order
    pub pending: Vec<(u8, Vec<u8>)>,
    pub locked: Vec<u8>,
    pub available: usize,
}
impl Probe {
    fn has_pending(&self, p: usize, r: usize) -> bool {
        self.pending.iter().any(|(c, rooms)| *c as usize == p && rooms.contains(&(r as u8)))
    }
    fn show(&self) -> String {
        format!(
            "pending [{}] locked {:?} available {}",
            self.pending
                .iter()
                .map(|(c, rooms)| format!("c{}:{:?}", c, rooms))
                .collect::<Vec<_>>()
                .join(" "),
            self.locked,
            self.available
        )
    }
}

/// harness bookkeeping (the independent observer of grants and releases)
#[derive(Clone, Debug, Default, PartialEq, Eq, Hash)]
pub struct Model {
    /// the receiver of the circuit's current reply channel exists (initially every circuit has a closed channel)
    pub alive: [bool; NC],
    /// grants delivered to the circuit and not yet released by it
    pub held: [[u8; NR]; NC],
    /// requested while alive and not yet granted (liveness obligation)
    pub want: [[bool; NR]; NC],
    /// requested, not granted, but the receiver was dropped since or before (no obligation; a late grant to a
    /// new receiver of the same circuit is tolerated)
    pub stale: [[bool; NR]; NC],
    /// per room: a release was sent by a circuit that does not hold it (never did, or released it already)
    /// while another circuit holds it
    pub spur: [u8; NR],
}
impl Model {
    fn holders(&self, r: usize) -> Vec<usize> {
        (0..NC).filter(|p| self.held[*p][r] > 0).collect()
    }
    fn total_held(&self) -> usize {
        self.held.iter().map(|h| h.iter().map(|x| *x as usize).sum::<usize>()).sum()
    }
}

#[derive(Clone, Debug, PartialEq, Eq, Hash)]
pub struct Viol {
    pub key: String,
    pub what: String,
}

/// effect class of a step (for the outcome histogram and the vacuity guard)
#[derive(Clone, Copy, Debug, Default, PartialEq, Eq, Hash)]
#[derive(PartialOrd, Ord)]
pub struct Effect {
    /// 0 request on a live channel, 1 request on a dropped channel, 2 release by the holder,
    /// 3 release by a non holder of a room another circuit holds, 4 release of a room nobody holds, 5 drop
    pub kind: u8,
    pub rooms: u8,
    pub grants: u8,
}
impl Effect {
    fn show(&self) -> String {
        let k = match self.kind {
            0 => format!("request{}", self.rooms),
            1 => format!("request{}.dropped_channel", self.rooms),
            2 => "release.by_holder".to_string(),
            3 => "release.by_non_holder.room_held_by_other".to_string(),
            4 => "release.room_not_held_by_anyone".to_string(),
            _ => "drop".to_string(),
        };
        format!("{}.grants{}", k, self.grants)
    }
}

/// result of one real step
#[derive(Clone, Debug, Default)]
pub struct Step {
    pub grants: Vec<(u8, u8)>,
    pub effect: Effect,
    pub viols: Vec<Viol>,
    /// the state is judged but not expanded (see `apply`)
    pub prune: bool,
}

fn spur_class(mask: u8) -> &'static str {
    if mask == 0 {
        "no_spurious_release"
    } else {
        "after_unlock_by_non_holder"
    }
}

/// runtime without io/time drivers: the lock service only uses channels
pub fn bare_runtime() -> tokio::runtime::Runtime {
    tokio::runtime::Builder::new_current_thread().build().unwrap()
}

/// a live actor plus the harness side of every circuit
pub struct Live {
    svc: RoomLockService,
    pub limit: usize,
    tx: [mpsc::UnboundedSender<Uid>; NC],
    rx: [Option<mpsc::UnboundedReceiver<Uid>>; NC],
    pub m: Model,
    pub probe: Probe,
    pub messages: u64,
    pub dead: bool,
}

impl Live {
    pub fn start(limit: usize) -> Live {
        Live {
            svc: RoomLockService::start(limit),
            limit,
            // every circuit starts with a channel whose receiver is already gone
            tx: [0, 1, 2].map(|_| mpsc::unbounded_channel::<Uid>().0),
            rx: [None, None, None],
            m: Model::default(),
            probe: Probe { pending: vec![], locked: vec![], available: limit },
            messages: 0,
            dead: false,
        }
    }

    async fn read_probe(&mut self) -> Option<Probe> {
        let svc = self.svc.clone();
        self.messages += 1;
        let r = AssertUnwindSafe(async move { svc.verif_probe().await }).catch_unwind().await;
        match r {
            Ok((pending, locked, available)) => Some(Probe {
                pending: pending
                    .into_iter()
                    .map(|(c, rooms)| (c[0], rooms.into_iter().map(|u| u[0]).collect()))
                    .collect(),
                locked: locked.into_iter().map(|u| u[0]).collect(),
                available,
            }),
            Err(_) => None,
        }
    }

    /// harness side of an event that must happen before the message is sent
    fn pre(&mut self, ev: &Ev) {
        match ev {
            Ev::Req { p, newch, .. } => {
                if *newch {
                    // a new connection on the same circuit; the old receiver (if any) goes away
                    let (t, r) = mpsc::unbounded_channel::<Uid>();
                    self.tx[*p as usize] = t;
                    self.rx[*p as usize] = Some(r);
                }
            }
            Ev::Drop { p } => self.rx[*p as usize] = None,
            Ev::Unlock { .. } => {}
        }
    }

    async fn send(&mut self, ev: &Ev) {
        match ev {
            Ev::Req { p, n, rooms, .. } => {
                let q: VecDeque<Uid> = rooms[..*n as usize].iter().map(|r| room(*r as usize)).collect();
                self.svc
                    .request_locks(circuit(*p as usize), q, self.tx[*p as usize].clone())
                    .await;
                self.messages += 1;
            }
            Ev::Unlock { r, .. } => {
                self.svc.unlock(room(*r as usize)).await;
                self.messages += 1;
            }
            Ev::Drop { .. } => {}
        }
    }

    /// Rebuild a recorded state on a fresh actor without judging: messages are sent back to back and the actor
    /// is only waited for before a harness side action (receiver dropped or replaced) whose order relative to the
    /// actor's sends matters. The result is compared with the recorded probe.
    pub async fn rebuild(limit: usize, hist: &[Ev], m: &Model, enc: &[u8]) -> (Live, bool) {
        let mut l = Live::start(limit);
        let mut unsynced = false;
        for e in hist {
            let harness_action = matches!(e, Ev::Drop { .. } | Ev::Req { newch: true, .. });
            if harness_action && unsynced {
                if l.read_probe().await.is_none() {
                    l.dead = true;
                    return (l, false);
                }
                unsynced = false;
            }
            l.pre(e);
            l.send(e).await;
            if !matches!(e, Ev::Drop { .. }) {
                unsynced = true;
            }
        }
        match l.read_probe().await {
            Some(p) => l.probe = p,
            None => {
                l.dead = true;
                return (l, false);
            }
        }
        for p in 0..NC {
            if let Some(rx) = l.rx[p].as_mut() {
                while rx.try_recv().is_ok() {}
            }
        }
        l.m = m.clone();
        let ok = encode(&l.probe, &l.m, &PERMS[0], &PERMS[0]) == enc;
        (l, ok)
    }

    /// apply one event on the real actor, observe, check every invariant
    pub async fn apply(&mut self, ev: &Ev) -> Step {
        let mut st = Step::default();
        if self.dead {
            return st;
        }
        self.pre(ev);
        match ev {
            Ev::Req { p, n, rooms, newch } => {
                let p = *p as usize;
                if *newch {
                    self.m.alive[p] = true;
                }
                let alive = self.m.alive[p];
                for r in &rooms[..*n as usize] {
                    let r = *r as usize;
                    if alive {
                        self.m.want[p][r] = true;
                        self.m.stale[p][r] = false;
                    } else {
                        self.m.stale[p][r] = true;
                    }
                }
                st.effect.kind = if alive { 0 } else { 1 };
                st.effect.rooms = *n;
            }
            Ev::Unlock { p, r } => {
                let (p, r) = (*p as usize, *r as usize);
                if self.m.held[p][r] > 0 {
                    self.m.held[p][r] -= 1;
                    if self.m.holders(r).is_empty() {
                        self.m.spur[r] = 0;
                    }
                    st.effect.kind = 2;
                } else if !self.m.holders(r).is_empty() {
                    self.m.spur[r] = 1;
                    st.effect.kind = 3;
                    // The service cannot tell this message from the holder's own release, so everything it does
                    // from here on is what it does after the holder's release (explored elsewhere); only the
                    // harness accounting differs (the holder still holds). The step itself is judged, the state
                    // is not expanded.
                    st.prune = true;
                } else {
                    st.effect.kind = 4;
                }
            }
            Ev::Drop { p } => {
                let p = *p as usize;
                self.m.alive[p] = false;
                for r in 0..NR {
                    if self.m.want[p][r] {
                        self.m.want[p][r] = false;
                        self.m.stale[p][r] = true;
                    }
                }
                st.effect.kind = 5;
            }
        }
        self.send(ev).await;
        // the channel of the actor is FIFO: the probe is answered after the message was handled
        match self.read_probe().await {
            Some(pr) => self.probe = pr,
            None => {
                self.dead = true;
                st.viols.push(Viol {
                    key: "A/service/actor_died".into(),
                    what: format!("the lock service task terminated while handling {}", ev.show()),
                });
                return st;
            }
        }
        // drain the reply channels
        for p in 0..NC {
            if let Some(rx) = self.rx[p].as_mut() {
                while let Ok(u) = rx.try_recv() {
                    st.grants.push((p as u8, u[0]));
                }
            }
        }
        st.effect.grants = st.grants.len() as u8;
        // ---- oracle ----
        for gi in 0..st.grants.len() {
            let (p, r) = (st.grants[gi].0 as usize, st.grants[gi].1 as usize);
            if r >= NR {
                st.viols.push(Viol { key: "A/grant/unknown_room".into(), what: format!("c{} was granted an unknown room", p) });
                continue;
            }
            if !self.m.want[p][r] && !self.m.stale[p][r] {
                st.viols.push(Viol {
                    key: "A/grant/not_requested_or_granted_twice".into(),
                    what: format!("c{} was granted r{} which it has not requested since its last grant of it", p, r),
                });
            }
            self.m.want[p][r] = false;
            self.m.stale[p][r] = false;
            if self.m.held[p][r] > 0 {
                if self.m.spur[r] == 0 {
                    st.viols.push(Viol {
                        key: "A/exclusive/same_circuit_twice/no_spurious_release".into(),
                        what: format!("c{} was granted r{} while it still holds it", p, r),
                    });
                } else {
                    st.prune = true;
                }
            }
            self.m.held[p][r] += 1;
        }
        for r in 0..NR {
            let h = self.m.holders(r);
            if h.len() > 1 {
                st.viols.push(Viol {
                    key: format!("A/exclusive/{}", spur_class(self.m.spur[r])),
                    what: format!(
                        "r{} is held by {} at the same time",
                        r,
                        h.iter().map(|p| format!("c{}", p)).collect::<Vec<_>>().join(" and ")
                    ),
                });
            }
        }
        if self.m.total_held() > self.limit {
            let mut mask = 0;
            for r in 0..NR {
                if !self.m.holders(r).is_empty() {
                    mask |= self.m.spur[r];
                }
            }
            st.viols.push(Viol {
                key: format!("A/bounded/{}", spur_class(mask)),
                what: format!("{} rooms are held at once, limit {}", self.m.total_held(), self.limit),
            });
        }
        if self.probe.available + self.probe.locked.len() != self.limit {
            st.viols.push(Viol {
                key: format!(
                    "A/accounting/available_plus_locked_{}_limit",
                    if self.probe.available + self.probe.locked.len() > self.limit { "gt" } else { "lt" }
                ),
                what: format!(
                    "available {} + locked {} != limit {}",
                    self.probe.available,
                    self.probe.locked.len(),
                    self.limit
                ),
            });
        }
        // a stale wish the service has already purged can never be granted: forget it (keeps the state small
        // and makes the oracle stricter, never laxer)
        for p in 0..NC {
            for r in 0..NR {
                if self.m.stale[p][r] && !self.probe.has_pending(p, r) {
                    self.m.stale[p][r] = false;
                }
            }
        }
        st
    }

    /// fair closure "every holder releases everything it holds, repeat"; returns the liveness verdicts
    pub async fn closure(&mut self) -> (Vec<Viol>, usize, Vec<Ev>) {
        let mut viols = vec![];
        let mut rounds = 0;
        let mut trace = vec![];
        loop {
            let mut todo = vec![];
            for p in 0..NC {
                for r in 0..NR {
                    for _ in 0..self.m.held[p][r] {
                        todo.push(Ev::Unlock { p: p as u8, r: r as u8 });
                    }
                }
            }
            if todo.is_empty() {
                break;
            }
            rounds += 1;
            if rounds > 40 {
                viols.push(Viol {
                    key: "A/liveness/closure_not_terminating".into(),
                    what: "releasing everything held 40 times in a row still leaves rooms held".into(),
                });
                return (viols, rounds, trace);
            }
            for ev in todo {
                let st = self.apply(&ev).await;
                trace.push(ev);
                for v in st.viols {
                    // safety verdicts inside the closure count too (each request granted exactly once)
                    viols.push(Viol { key: format!("{}@closure", v.key), what: v.what });
                }
                if self.dead {
                    return (viols, rounds, trace);
                }
            }
        }
        for p in 0..NC {
            if !self.m.alive[p] {
                continue;
            }
            for r in 0..NR {
                if self.m.want[p][r] {
                    let still = self.probe.has_pending(p, r);
                    viols.push(Viol {
                        key: format!(
                            "A/liveness/request_not_granted.{}",
                            if still { "still_pending" } else { "forgotten" }
                        ),
                        what: format!(
                            "after every holder released everything, live circuit c{} still waits for r{} (service: {})",
                            p,
                            r,
                            self.probe.show()
                        ),
                    });
                }
            }
        }
        if !self.probe.locked.is_empty() || self.probe.available != self.limit {
            viols.push(Viol {
                key: "A/liveness/lock_left_after_all_released".into(),
                what: format!(
                    "after every holder released everything the service still shows {} (limit {})",
                    self.probe.show(),
                    self.limit
                ),
            });
        }
        (viols, rounds, trace)
    }
}

const PERMS: [[usize; 3]; 6] = [[0, 1, 2], [0, 2, 1], [1, 0, 2], [1, 2, 0], [2, 0, 1], [2, 1, 0]];

fn encode(pr: &Probe, m: &Model, pc: &[usize; 3], prm: &[usize; 3]) -> Vec<u8> {
    let mut v = Vec::with_capacity(64);
    v.push(pr.pending.len() as u8);
    for (c, rooms) in &pr.pending {
        v.push(pc[(*c as usize).min(2)] as u8);
        v.push(rooms.len() as u8);
        for r in rooms {
            v.push(prm[(*r as usize).min(2)] as u8);
        }
    }
    let mut l: Vec<u8> = pr.locked.iter().map(|r| prm[(*r as usize).min(2)] as u8).collect();
    l.sort();
    v.push(l.len() as u8);
    v.extend(l);
    v.push(pr.available as u8);
    let mut alive = [0u8; NC];
    let mut held = [[0u8; NR]; NC];
    let mut want = [[0u8; NR]; NC];
    let mut stale = [[0u8; NR]; NC];
    let mut spur = [0u8; NR];
    for c in 0..NC {
        alive[pc[c]] = m.alive[c] as u8;
        for r in 0..NR {
            held[pc[c]][prm[r]] = m.held[c][r];
            want[pc[c]][prm[r]] = m.want[c][r] as u8;
            stale[pc[c]][prm[r]] = m.stale[c][r] as u8;
        }
    }
    for r in 0..NR {
        spur[prm[r]] = m.spur[r];
    }
    v.extend(alive);
    for c in 0..NC {
        v.extend(held[c]);
        v.extend(want[c]);
        v.extend(stale[c]);
    }
    v.extend(spur);
    v
}

/// canonical form: the smallest encoding over all renamings of circuits and of rooms (identity only when `sym` is off)
pub fn canon(pr: &Probe, m: &Model, sym: bool) -> Vec<u8> {
    if !sym {
        return encode(pr, m, &PERMS[0], &PERMS[0]);
    }
    let mut best: Option<Vec<u8>> = None;
    for pc in &PERMS {
        for prm in &PERMS {
            let e = encode(pr, m, pc, prm);
            if best.as_ref().map(|b| e < *b).unwrap_or(true) {
                best = Some(e);
            }
        }
    }
    best.unwrap()
}

#[derive(Clone)]
struct Node {
    hist: Vec<Ev>,
    m: Model,
    /// identity encoding of the recorded (probe, model): what a rebuild must reproduce
    enc: Vec<u8>,
}

struct Succ {
    fi: usize,
    ei: usize,
    /// canonical form (computed by the worker), identity encoding, orbit representative when symmetry is off
    key: Vec<u8>,
    enc: Vec<u8>,
    orbit: Option<Vec<u8>>,
    m: Model,
    effect: Effect,
    viols: Vec<Viol>,
    prune: bool,
    messages: u64,
    replay_ok: bool,
}

struct Clos {
    viols: Vec<Viol>,
    rounds: usize,
    served: bool,
    trace: Vec<Ev>,
    messages: u64,
    replay_ok: bool,
}

fn threads() -> usize {
    ncpu().clamp(1, 16)
}

fn hist_json(hist: &[Ev]) -> Value {
    Value::Array(hist.iter().map(|e| e.to_json()).collect())
}

fn replay_json(limit: usize, hist: &[Ev], run_closure: bool) -> Value {
    json!({"part": "A", "limit": limit, "events": hist_json(hist), "run_closure": run_closure})
}

/// does the history contain, before its last event, a grant of `r` to `p`?  (double vs foreign release, for the text)
async fn releaser_class(limit: usize, hist: &[Ev]) -> String {
    let Some(pos) = hist.iter().rposition(|e| matches!(e, Ev::Unlock { .. })) else {
        return String::new();
    };
    let mut l = Live::start(limit);
    let mut ever = [[false; NR]; NC];
    let mut res = String::new();
    for (i, e) in hist.iter().enumerate() {
        if let Ev::Unlock { p, r } = e {
            if l.m.held[*p as usize][*r as usize] == 0 && !l.m.holders(*r as usize).is_empty() && i <= pos {
                res = if ever[*p as usize][*r as usize] {
                    format!(" [c{} had been granted r{} before and already released it: a double release]", p, r)
                } else {
                    format!(" [c{} never held r{}: a release of a room not held]", p, r)
                };
            }
        }
        let st = l.apply(e).await;
        for (p, r) in st.grants {
            if (r as usize) < NR {
                ever[p as usize][r as usize] = true;
            }
        }
    }
    res
}

pub struct SliceReport {
    pub per_level: Vec<usize>,
    pub fixpoint: bool,
    pub orbits: HashSet<Vec<u8>>,
}

/// Part A for one scope and one limit
fn explore_a(sc: &Scope, limit: usize, depth: usize, state_cap: usize, sym: bool, out: &mut Outcome) -> SliceReport {
    let alpha = alphabet(sc);
    let mut seen: HashSet<Vec<u8>> = HashSet::new();
    let mut orbits: HashSet<Vec<u8>> = HashSet::new();
    let p0 = Probe { pending: vec![], locked: vec![], available: limit };
    let root = Node { hist: vec![], m: Model::default(), enc: encode(&p0, &Model::default(), &PERMS[0], &PERMS[0]) };
    let c0 = canon(&p0, &Model::default(), sym);
    out.state(&(limit, &c0));
    orbits.insert(canon(&p0, &Model::default(), true));
    seen.insert(c0);
    let mut frontier = vec![root];
    let mut total_messages = 0u64;
    let mut per_level = vec![];
    let mut fixpoint = false;
    let progress = std::env::var("C20_PROGRESS").is_ok();
    let mut classes: HashSet<(Effect, Vec<String>, bool)> = HashSet::new();
    let mut effect_tally: std::collections::BTreeMap<Effect, u64> = std::collections::BTreeMap::new();
    let mut viol_tally: std::collections::BTreeMap<String, u64> = std::collections::BTreeMap::new();
    let mut violating_steps = 0u64;
    let mut not_expanded = 0u64;
    for d in 0..=depth {
        let nt = threads();
        let alpha_ref = &alpha;
        let expand = d < depth;
        let mut next = vec![];
        let mut new_states = 0usize;
        const CHUNK: usize = 4096;
        let nchunks = (frontier.len() + CHUNK - 1) / CHUNK;
        for ch in 0..nchunks {
        let base = ch * CHUNK;
        let fr = &frontier[base..(base + CHUNK).min(frontier.len())];
        // one pass per level: the liveness closure of every state of the level, and (below the depth bound) every
        // enabled event from it
        let results: Vec<(Vec<(usize, Clos)>, Vec<Succ>)> = std::thread::scope(|s| {
            let mut hs = vec![];
            for t in 0..nt {
                hs.push(s.spawn(move || {
                    let rt = bare_runtime();
                    let mut clos = vec![];
                    let mut succs = vec![];
                    rt.block_on(async {
                        let mut i = t;
                        while i < fr.len() {
                            let n = &fr[i];
                            {
                                let (mut l, ok) = Live::rebuild(limit, &n.hist, &n.m, &n.enc).await;
                                let m0 = l.messages;
                                let before = l.m.want;
                                let (viols, rounds, trace) = l.closure().await;
                                let served = before != l.m.want;
                                clos.push((i, Clos { viols, rounds, served, trace, messages: l.messages - m0, replay_ok: ok }));
                            }
                            if expand {
                                // cross check of the fast rebuild against the judged step by step replay
                                if i % 97 == 0 {
                                    let mut slow = Live::start(limit);
                                    for e in &n.hist {
                                        slow.apply(e).await;
                                    }
                                    if encode(&slow.probe, &slow.m, &PERMS[0], &PERMS[0]) != n.enc {
                                        clos.push((i, Clos { viols: vec![], rounds: 0, served: false, trace: vec![], messages: 0, replay_ok: false }));
                                    }
                                }
                                for (ei, ev) in alpha_ref.iter().enumerate() {
                                    if let Ev::Drop { p } = ev {
                                        // dropping a receiver that is already gone changes nothing
                                        if !n.m.alive[*p as usize] {
                                            continue;
                                        }
                                    }
                                    let (mut l, ok) = Live::rebuild(limit, &n.hist, &n.m, &n.enc).await;
                                    let st = l.apply(ev).await;
                                    let terminal = !st.viols.is_empty() || st.prune;
                                    succs.push(Succ {
                                        fi: i,
                                        ei,
                                        key: if terminal { vec![] } else { canon(&l.probe, &l.m, sym) },
                                        enc: if terminal { vec![] } else { encode(&l.probe, &l.m, &PERMS[0], &PERMS[0]) },
                                        orbit: if terminal || sym { None } else { Some(canon(&l.probe, &l.m, true)) },
                                        m: l.m.clone(),
                                        effect: st.effect,
                                        viols: st.viols,
                                        prune: st.prune,
                                        messages: l.messages,
                                        replay_ok: ok,
                                    });
                                }
                            }
                            i += nt;
                        }
                    });
                    (clos, succs)
                }));
            }
            hs.into_iter().map(|h| h.join().expect("worker")).collect()
        });
        let mut clos: Vec<(usize, Clos)> = vec![];
        let mut succs: Vec<Succ> = vec![];
        for (c, s) in results {
            clos.extend(c);
            succs.extend(s);
        }
        clos.sort_by_key(|x| x.0);
        succs.sort_by_key(|x| (x.fi, x.ei));
        let frontier = fr;
        for (i, c) in clos {
            if !c.replay_ok {
                out.machinery_errors.push(format!(
                    "rebuild of a recorded state diverged ({} limit {}, {:?})",
                    sc.name,
                    limit,
                    frontier[i].hist.iter().map(|e| e.show()).collect::<Vec<_>>()
                ));
                continue;
            }
            out.evaluations += 1;
            total_messages += c.messages;
            let verdict: Vec<&str> = c.viols.iter().map(|v| v.key.as_str()).collect();
            let label = if verdict.is_empty() {
                format!("closure:ok.release_rounds{}{}", c.rounds.min(4), if c.served { ".waiting_requests_served" } else { "" })
            } else {
                "closure:violation".to_string()
            };
            out.count(&label);
            out.nontrivial(&("closure", c.rounds.min(4), c.served, &verdict));
            for v in &c.viols {
                out.violation(
                    v.key.clone(),
                    format!(
                        "limit {}: after [{}], then every holder releases everything ({} releases): {}",
                        limit,
                        frontier[i].hist.iter().map(|e| e.show()).collect::<Vec<_>>().join("; "),
                        c.trace.len(),
                        v.what
                    ),
                    replay_json(limit, &frontier[i].hist, true),
                );
            }
        }
        for s in succs {
            if !s.replay_ok {
                out.machinery_errors.push(format!(
                    "rebuild of a recorded state diverged ({} limit {}, {:?})",
                    sc.name,
                    limit,
                    frontier[s.fi].hist.iter().map(|e| e.show()).collect::<Vec<_>>()
                ));
                continue;
            }
            out.transitions += 1;
            out.evaluations += 1;
            total_messages += s.messages;
            // tallies are kept locally and flushed once per scope (this loop is the serial part of the search)
            let verdict: Vec<String> = s.viols.iter().map(|v| v.key.clone()).collect();
            let class = (s.effect, verdict, s.prune);
            if !classes.contains(&class) {
                let v2: Vec<&str> = class.1.iter().map(|k| k.as_str()).collect();
                out.nontrivial(&(s.effect, &v2, s.prune));
                classes.insert(class);
            }
            if s.viols.is_empty() {
                *effect_tally.entry(s.effect).or_insert(0) += 1;
            } else {
                violating_steps += 1;
            }
            let mk_hist = |fi: usize, ei: usize| {
                let mut h = frontier[fi].hist.clone();
                h.push(alpha[ei]);
                h
            };
            for v in &s.viols {
                if let Some(n) = viol_tally.get_mut(&v.key) {
                    *n += 1;
                    continue;
                }
                viol_tally.insert(v.key.clone(), 0);
                let hist = mk_hist(s.fi, s.ei);
                if !out.violations.iter().any(|x| x.key == v.key) {
                    let cls = bare_runtime().block_on(releaser_class(limit, &hist));
                    out.violation(
                        v.key.clone(),
                        format!(
                            "limit {}: {} after [{}]{}",
                            limit,
                            v.what,
                            hist.iter().map(|e| e.show()).collect::<Vec<_>>().join("; "),
                            cls
                        ),
                        replay_json(limit, &hist, false),
                    );
                } else {
                    out.violation(v.key.clone(), "", Value::Null);
                }
            }
            if s.prune && s.viols.is_empty() {
                not_expanded += 1;
            }
            // a violating state is terminal
            if !s.viols.is_empty() || s.prune {
                continue;
            }
            let key = s.key;
            if !seen.contains(&key) {
                out.state(&(limit, &key));
                seen.insert(key);
                if let Some(o) = s.orbit {
                    orbits.insert(o);
                }
                new_states += 1;
                let hist = mk_hist(s.fi, s.ei);
                if new_states == 1 && (d == 0 || d + 1 == depth) {
                    out.sample(json!({"scope": sc.name, "limit": limit, "events": hist.iter().map(|e| e.show()).collect::<Vec<_>>(), "held": s.m.held}));
                }
                if seen.len() > state_cap {
                    let tag = format!("A {} limit {}", sc.name, limit);
                    if !out.capped.iter().any(|c| c.starts_with(&tag)) {
                        out.capped.push(format!("{}: state cap {} reached at depth {}", tag, state_cap, d + 1));
                    }
                    continue;
                }
                next.push(Node { hist, m: s.m, enc: s.enc });
            }
        }
        }
        if !expand {
            break;
        }
        per_level.push(new_states);
        if progress {
            eprintln!(
                "A {} limit {} depth {}: {} new states, {} transitions so far, {} messages",
                sc.name, limit, d + 1, new_states, out.transitions, total_messages
            );
        }
        frontier = next;
        if frontier.is_empty() {
            fixpoint = true;
            break;
        }
    }
    for (e, n) in effect_tally {
        *out.outcomes.entry(format!("step:{}", e.show())).or_insert(0) += n;
    }
    for (k, n) in viol_tally {
        // the first occurrence went through `out.violation` (which counted 1)
        *out.outcomes.entry(format!("viol:{}", k)).or_insert(0) += n;
    }
    if violating_steps > 0 {
        *out.outcomes.entry("step:violation".to_string()).or_insert(0) += violating_steps;
    }
    if not_expanded > 0 {
        *out.outcomes.entry("not_expanded:lock_released_by_non_holder_while_held".to_string()).or_insert(0) += not_expanded;
    }
    out.notes.push(format!(
        "A scope {} (circuits {}, rooms {}, rooms per request <= {}, {} events) limit {}: new states per depth {:?}{}; real messages sent (rebuilds and probes included) {}",
        sc.name,
        sc.nc,
        sc.nr,
        sc.max_req,
        alpha.len(),
        limit,
        per_level,
        if fixpoint { " FIXPOINT: every sequence of any length over this alphabet is covered" } else { "" },
        total_messages
    ));
    SliceReport { per_level, fixpoint, orbits: if sym { seen } else { orbits } }
}

/// the sequence the prototype confirmed: a second release of a room that was granted again in between
fn directed_double_release(out: &mut Outcome) {
    let r1 = |p: u8, newch: bool| Ev::Req { p, n: 1, rooms: [0, 0, 0], newch };
    let hist = vec![r1(0, true), Ev::Unlock { p: 0, r: 0 }, r1(1, true), Ev::Unlock { p: 0, r: 0 }, r1(2, true)];
    let rt = bare_runtime();
    let keys: Vec<String> = rt.block_on(async {
        let mut l = Live::start(1);
        let mut keys = vec![];
        for e in &hist {
            let st = l.apply(e).await;
            keys.extend(st.viols.into_iter().map(|v| v.key));
        }
        keys
    });
    out.evaluations += 1;
    out.count(&format!("directed:double_release:{}", if keys.is_empty() { "no_violation".to_string() } else { keys.join("+") }));
    out.notes.push(format!(
        "directed scenario (limit 1) [{}] -> {}",
        hist.iter().map(|e| e.show()).collect::<Vec<_>>().join("; "),
        if keys.is_empty() { "no violation".to_string() } else { format!("violates {}", keys.join(", ")) }
    ));
}

fn replay(path: &str) -> i32 {
    let text = match std::fs::read_to_string(path) {
        Ok(t) => t,
        Err(e) => {
            eprintln!("machinery error: cannot read {}: {}", path, e);
            return 2;
        }
    };
    let v: Value = match serde_json::from_str(&text) {
        Ok(v) => v,
        Err(e) => {
            eprintln!("machinery error: cannot parse {}: {}", path, e);
            return 2;
        }
    };
    let r = v.get("replay").cloned().unwrap_or(v.clone());
    if r.get("part").and_then(|p| p.as_str()) == Some("B") {
        return c20_b::replay(&r);
    }
    let limit = r["limit"].as_u64().unwrap_or(1) as usize;
    let events: Vec<Ev> = r["events"]
        .as_array()
        .map(|a| a.iter().filter_map(Ev::from_json).collect())
        .unwrap_or_default();
    let with_closure = r.get("run_closure").and_then(|c| c.as_bool()).unwrap_or(false);
    let mut runs = vec![];
    for round in 0..2 {
        let rt = bare_runtime();
        let log = rt.block_on(async {
            let mut log = vec![];
            let mut l = Live::start(limit);
            for e in &events {
                let st = l.apply(e).await;
                log.push(format!(
                    "{:<44} -> grants [{}] | service: {} | held {:?}{}",
                    e.show(),
                    st.grants.iter().map(|(p, r)| format!("c{}:r{}", p, r)).collect::<Vec<_>>().join(","),
                    l.probe.show(),
                    l.m.held,
                    st.viols.iter().map(|v| format!("\n    VIOLATED {} :: {}", v.key, v.what)).collect::<String>()
                ));
            }
            if with_closure {
                let (viols, rounds, trace) = l.closure().await;
                log.push(format!(
                    "fair release closure: {} rounds [{}] -> service: {}{}",
                    rounds,
                    trace.iter().map(|e| e.show()).collect::<Vec<_>>().join("; "),
                    l.probe.show(),
                    viols.iter().map(|v| format!("\n    VIOLATED {} :: {}", v.key, v.what)).collect::<String>()
                ));
            }
            log
        });
        if round == 0 {
            println!("replay of {} (part A, limit {}):", path, limit);
            for l in &log {
                println!("  {}", l);
            }
        }
        runs.push(log);
    }
    if runs[0] != runs[1] {
        eprintln!("machinery error: the two replays differ");
        return 2;
    }
    println!("second run identical");
    if runs[0].iter().any(|l| l.contains("VIOLATED")) {
        1
    } else {
        0
    }
}

pub const FULL: Scope = Scope { name: "full", nc: 3, nr: 3, max_req: 3 };
pub const SINGLE: Scope = Scope { name: "single_room_requests", nc: 3, nr: 3, max_req: 1 };
pub const SMALL: Scope = Scope { name: "two_by_two", nc: 2, nr: 2, max_req: 2 };

pub fn run(args: &Args) -> i32 {
    if let Some(p) = &args.replay {
        return replay(p);
    }
    if args.shard.is_some() {
        return c20_b::run_shard(args);
    }
    let start = Instant::now();
    let mut out = Outcome::default();
    let arg = |name: &str| args.extra.iter().find_map(|e| e.strip_prefix(name).map(|s| s.to_string()));
    let only = arg("--part=");
    let cap = args.tier.pick(600_000, 6_000_000);
    // (scope, depth quick, depth thorough)
    let mut plan: Vec<(Scope, usize)> = vec![
        (FULL, args.tier.pick(4, 6)),
        (SINGLE, args.tier.pick(6, 10)),
        // small enough to be explored until no new state appears (every sequence of any length)
        (SMALL, 16),
    ];
    if let Some(d) = arg("--depth=").and_then(|s| s.parse::<usize>().ok()) {
        for p in plan.iter_mut() {
            p.1 = d;
        }
    }
    if let Some(s) = arg("--scope=") {
        plan.retain(|p| p.0.name == s);
    }
    let mut a_bounds = vec![];
    if only.as_deref() != Some("B") {
        let sym = !args.extra.iter().any(|e| e == "--nosym");
        for (sc, depth) in &plan {
            for limit in [1usize, 2] {
                let rep = explore_a(sc, limit, *depth, cap, sym, &mut out);
                a_bounds.push(json!({
                    "scope": sc.name, "circuits": sc.nc, "rooms": sc.nr, "rooms_per_request_max": sc.max_req,
                    "request_shapes": room_orderings(sc.nr, sc.max_req).len(), "channel_modes": 2,
                    "alphabet": alphabet(sc).len(), "limit": limit, "depth_bound": depth,
                    "depth_reached": rep.per_level.len(), "fixpoint": rep.fixpoint,
                    "new_states_per_depth": rep.per_level,
                }));
            }
        }
        directed_double_release(&mut out);
        // self check of the symmetry reduction: at a small depth the reduced search must find exactly the orbits
        // of the states the unreduced search finds, and the same verdict keys
        if sym && arg("--scope=").is_none() {
            let cd = args.tier.pick(2, 3);
            for limit in [1usize, 2] {
                let mut o1 = Outcome::default();
                let mut o2 = Outcome::default();
                let a = explore_a(&FULL, limit, cd, cap, true, &mut o1);
                let b = explore_a(&FULL, limit, cd, cap, false, &mut o2);
                let mut k1: Vec<&String> = o1.violations.iter().map(|v| &v.key).collect();
                let mut k2: Vec<&String> = o2.violations.iter().map(|v| &v.key).collect();
                k1.sort();
                k2.sort();
                if a.orbits != b.orbits || k1 != k2 {
                    out.machinery_errors.push(format!(
                        "symmetry reduction self check failed (limit {}, depth {}): {} orbits reduced, {} unreduced, keys {:?} vs {:?}",
                        limit, cd, a.orbits.len(), b.orbits.len(), k1, k2
                    ));
                } else {
                    out.notes.push(format!(
                        "A limit {}: symmetry self check at depth {}: the {} orbits of the reduced search = the orbits of the {} states of the unreduced search, same verdict keys",
                        limit, cd, a.orbits.len(), o2.states.len()
                    ));
                }
                out.machinery_errors.extend(o1.machinery_errors);
                out.machinery_errors.extend(o2.machinery_errors);
            }
        }
    }
    let mut b_bounds = json!("not run");
    if only.as_deref() != Some("A") {
        b_bounds = c20_b::explore(args, &mut out);
    }
    // every step ran on the real actor / the real connection task
    out.traces_validated = out.transitions;
    println!("outcomes:");
    for (k, v) in &out.outcomes {
        println!("  {:<78} {}", k, v);
    }
    for n in &out.notes {
        println!("note: {}", n);
    }
    let meta = CheckMeta {
        prop: "C20",
        level: "model_checking",
        rule: "A: E-STATE breadth first on the real RoomLockService actor. State = probe of the actor (pending rooms per circuit in queue order, locked, available) + harness bookkeeping (receiver alive, grants held, rooms wanted with/without obligation), minimised over renamings of circuits and rooms; from every distinct state every event of the scope's alphabet and the fair release closure; a step is non-trivial/distinct by (event effect class, verdict vector), a closure by (rounds, served, verdict vector). B: E-SCHED on real LocalPeerService::start connection tasks sharing one real lock service, every order of the driver events up to the bound; distinct by (observation trace class, verdict vector)".into(),
        bounds: json!({"A": a_bounds, "A_state_cap": cap, "B": b_bounds}),
        assumptions: vec![
            "the actor reads circuit and room identifiers only through Eq/Hash (HashMap get/insert/remove, HashSet contains/insert/remove, VecDeque::iter().any), never through order or iteration: fixed small ids are as general as random ones and renaming them maps runs to runs (checked at a small depth against the unreduced search)".into(),
            "one message at a time: the harness waits for the probe answer (FIFO mailbox) before the next event; the actor is sequential, so messages queued together would be handled in the same order with the same result, except for the moment a receiver is dropped, which is an event of its own here".into(),
            "a repeated request of a room already pending for the same circuit is one request (the service merges them); a request made on a dropped receiver carries no liveness obligation and a late grant of it to the circuit's new receiver is tolerated".into(),
            "a release by a non-holder of a room another circuit holds is judged at that step and not expanded: the message is identical to the holder's release, so the service's further behaviour is the one explored from the state where the holder released".into(),
            "B: the remote side is the harness; honest answers come from the real process_inbound over a real peer database".into(),
        ],
        exhaustive_claim: true,
    };
    finish(args, &meta, &out, start)
}
