//! C04 value domains: the explicit finite alphabets, their enumeration (simplest first, every
//! case regenerable from its index), the literal tokens that denote a value, and the character /
//! value classes used in finding keys.
use crate::c04_sql::{parse_json, JV};
use crate::common::Tier;
use discret::verif::database::query_language::ParamValue;

/// the metacharacter alphabet of the design (24 symbols)
pub const SIGMA: [char; 24] = [
    'a', ' ', '"', '\'', '\\', '/', '%', '_', '$', ';', '-', '{', '}', '[', ']', ':', ',', '\n', '\t', '\0', '\u{7f}',
    'é', '\u{2028}', '😀',
];
/// extra symbols used as strings of length one only (they reach the remaining short escapes of
/// the string grammar: \b \f \r, and an escaped plain letter, an upper case letter)
pub const EXTRA1: [char; 4] = ['\u{8}', '\u{c}', '\r', 'A'];

pub fn char_class(c: char) -> &'static str {
    match c {
        'a' | 'A' => "plain",
        ' ' => "space",
        '"' => "dquote",
        '\'' => "squote",
        '\\' => "backslash",
        '/' => "slash",
        '%' | '_' => "like-wildcard",
        '$' => "dollar",
        ';' | '-' => "sql-punct",
        '{' | '}' | '[' | ']' | ':' | ',' => "json-punct",
        '\0' => "nul",
        '\n' | '\t' | '\u{7f}' | '\u{8}' | '\u{c}' | '\r' => "control",
        c if (c as u32) >= 0x80 => "non-ascii",
        c if c.is_ascii_alphanumeric() => "plain",
        _ => "other-punct",
    }
}

/// number of strings of length <= len over SIGMA
pub fn n_strings(len: usize) -> usize {
    let mut n = 0;
    let mut p = 1;
    for _ in 0..=len {
        n += p;
        p *= SIGMA.len();
    }
    n
}

/// all strings of exactly `len` symbols, in alphabet order
pub fn strings_of_len(len: usize) -> Vec<String> {
    let mut res = vec![String::new()];
    for _ in 0..len {
        let mut next = Vec::with_capacity(res.len() * SIGMA.len());
        for r in &res {
            for c in SIGMA {
                let mut s = r.clone();
                s.push(c);
                next.push(s);
            }
        }
        res = next;
    }
    res
}

/// sorted multiset of character classes: the abstract "input class" of a string
pub fn class_multiset(s: &str) -> String {
    let mut v: Vec<&str> = s.chars().map(char_class).collect();
    v.sort();
    if v.is_empty() {
        return "empty".into();
    }
    v.join("+")
}

// ------------------------------------------------------------------------------------------
// typed values
// ------------------------------------------------------------------------------------------

#[derive(Clone, Copy, Debug, PartialEq, Eq, Hash, PartialOrd, Ord)]
pub enum Ty {
    Str,
    Int,
    Flt,
    Bool,
    B64,
    Json,
}
pub const TYPES: [Ty; 6] = [Ty::Str, Ty::Int, Ty::Flt, Ty::Bool, Ty::B64, Ty::Json];
impl Ty {
    pub fn entity(&self) -> &'static str {
        match self {
            Ty::Str => "S",
            Ty::Int => "I",
            Ty::Flt => "F",
            Ty::Bool => "B",
            Ty::B64 => "X",
            Ty::Json => "J",
        }
    }
    pub fn name(&self) -> &'static str {
        match self {
            Ty::Str => "String",
            Ty::Int => "Integer",
            Ty::Flt => "Float",
            Ty::Bool => "Boolean",
            Ty::B64 => "Base64",
            Ty::Json => "Json",
        }
    }
    pub fn from_name(n: &str) -> Option<Ty> {
        TYPES.iter().copied().find(|t| t.name() == n)
    }
}

pub const KINDS: [&str; 3] = ["plain", "nullable", "default"];
pub const FIELDS: [&str; 3] = ["p", "n", "d"];

#[derive(Clone, Debug)]
pub enum Val {
    Null,
    S(String),
    I(i64),
    F(f64),
    B(bool),
    /// base64 text
    X(String),
    /// JSON text
    J(String),
}

impl Val {
    pub fn param(&self) -> ParamValue {
        match self {
            Val::Null => ParamValue::Null,
            Val::S(s) | Val::X(s) | Val::J(s) => ParamValue::String(s.clone()),
            Val::I(i) => ParamValue::Integer(*i),
            Val::F(f) => ParamValue::Float(*f),
            Val::B(b) => ParamValue::Boolean(*b),
        }
    }
    /// the JSON value a query must return for a field holding this value
    pub fn expected_json(&self) -> JV {
        match self {
            Val::Null => JV::Null,
            Val::S(s) | Val::X(s) => JV::Str(s.clone()),
            Val::I(i) => JV::Num(i.to_string()),
            Val::F(f) => JV::Num(format!("{:?}", f)),
            Val::B(b) => JV::Bool(*b),
            Val::J(t) => parse_json(t).unwrap_or(JV::Null),
        }
    }
    pub fn show(&self) -> String {
        match self {
            Val::Null => "null".into(),
            Val::S(s) => format!("{:?}", s),
            Val::X(s) => format!("b64:{}", s),
            Val::J(s) => format!("json:{}", s),
            Val::I(i) => i.to_string(),
            Val::F(f) => format!("{:?}", f),
            Val::B(b) => b.to_string(),
        }
    }
    pub fn to_replay(&self) -> serde_json::Value {
        match self {
            Val::Null => serde_json::json!({"t":"null"}),
            Val::S(s) => serde_json::json!({"t":"S","v":s}),
            Val::X(s) => serde_json::json!({"t":"X","v":s}),
            Val::J(s) => serde_json::json!({"t":"J","v":s}),
            Val::I(i) => serde_json::json!({"t":"I","v":i.to_string()}),
            Val::F(f) => serde_json::json!({"t":"F","v":format!("{:016x}", f.to_bits())}),
            Val::B(b) => serde_json::json!({"t":"B","v":b}),
        }
    }
    pub fn from_replay(v: &serde_json::Value) -> Option<Val> {
        let t = v.get("t")?.as_str()?;
        Some(match t {
            "null" => Val::Null,
            "S" => Val::S(v.get("v")?.as_str()?.to_string()),
            "X" => Val::X(v.get("v")?.as_str()?.to_string()),
            "J" => Val::J(v.get("v")?.as_str()?.to_string()),
            "I" => Val::I(v.get("v")?.as_str()?.parse().ok()?),
            "F" => Val::F(f64::from_bits(u64::from_str_radix(v.get("v")?.as_str()?, 16).ok()?)),
            "B" => Val::B(v.get("v")?.as_bool()?),
            _ => return None,
        })
    }
}

/// does the JSON value `got` returned by a query equal the typed value `want` of a field of
/// type `ty`? (`neg_zero` is set when the only difference is the sign of a float zero)
pub fn typed_eq(ty: Ty, want: &Val, got: &JV, neg_zero: &mut bool) -> bool {
    match (want, got) {
        (Val::Null, JV::Null) => true,
        (Val::Null, _) => false,
        (Val::S(a), JV::Str(b)) | (Val::X(a), JV::Str(b)) => a == b,
        (Val::B(a), JV::Bool(b)) => a == b,
        (Val::I(a), JV::Num(t)) => {
            if ty == Ty::Flt {
                t.parse::<f64>().map(|x| x == *a as f64).unwrap_or(false)
            } else {
                t.parse::<i128>().map(|x| x == *a as i128).unwrap_or(false)
            }
        }
        (Val::F(a), JV::Num(t)) => match t.parse::<f64>() {
            Ok(x) => {
                if x.to_bits() == a.to_bits() {
                    true
                } else if x == *a {
                    *neg_zero = true;
                    true
                } else {
                    false
                }
            }
            Err(_) => false,
        },
        (Val::J(a), g) => match parse_json(a) {
            Ok(w) => w.sem_eq(g),
            Err(_) => false,
        },
        _ => false,
    }
}

/// equality of two written values of one field type ("the rows holding the value")
pub fn val_eq(a: &Val, b: &Val) -> bool {
    match (a, b) {
        (Val::Null, Val::Null) => true,
        (Val::Null, Val::J(t)) | (Val::J(t), Val::Null) => matches!(parse_json(t), Ok(JV::Null)),
        (Val::S(x), Val::S(y)) | (Val::X(x), Val::X(y)) => x == y,
        (Val::I(x), Val::I(y)) => x == y,
        (Val::F(x), Val::F(y)) => x == y,
        (Val::I(x), Val::F(y)) | (Val::F(y), Val::I(x)) => (*x as f64) == *y,
        (Val::B(x), Val::B(y)) => x == y,
        (Val::J(x), Val::J(y)) => match (parse_json(x), parse_json(y)) {
            (Ok(p), Ok(q)) => p.sem_eq(&q),
            _ => false,
        },
        _ => false,
    }
}

/// the typed value corresponding to what a query returned (used to re-align the harness model
/// with the stored content after a changed-value finding, so that one defect is reported once)
pub fn val_from_json(ty: Ty, got: &JV) -> Val {
    match (ty, got) {
        (_, JV::Null) if ty != Ty::Json => Val::Null,
        (Ty::Str, JV::Str(s)) => Val::S(s.clone()),
        (Ty::B64, JV::Str(s)) => Val::X(s.clone()),
        (Ty::Bool, JV::Bool(b)) => Val::B(*b),
        (Ty::Int, JV::Num(t)) => t.parse::<i64>().map(Val::I).unwrap_or(Val::Null),
        (Ty::Flt, JV::Num(t)) => t.parse::<f64>().map(Val::F).unwrap_or(Val::Null),
        (Ty::Json, g) => Val::J(g.render()),
        _ => Val::Null,
    }
}

// ------------------------------------------------------------------------------------------
// literal tokens
// ------------------------------------------------------------------------------------------

/// `raw`: only `"` and `\` are escaped (every other character, control characters included, is
/// written as itself, which the grammar allows). `esc`: every character that has an escape in the
/// grammar is written with it (short escapes, \/ and \uXXXX for control and non ASCII characters,
/// surrogate pairs above U+FFFF).
pub fn string_token(s: &str, esc: bool) -> String {
    let mut t = String::from("\"");
    for c in s.chars() {
        match c {
            '"' => t.push_str("\\\""),
            '\\' => t.push_str("\\\\"),
            c if !esc => t.push(c),
            '/' => t.push_str("\\/"),
            '\n' => t.push_str("\\n"),
            '\t' => t.push_str("\\t"),
            '\r' => t.push_str("\\r"),
            '\u{8}' => t.push_str("\\b"),
            '\u{c}' => t.push_str("\\f"),
            'A' => t.push_str("\\u0041"),
            c if (c as u32) < 0x20 || c == '\u{7f}' || (c as u32) >= 0x80 => {
                let mut b = [0u16; 2];
                for u in c.encode_utf16(&mut b) {
                    t.push_str(&format!("\\u{:04x}", u));
                }
            }
            c => t.push(c),
        }
    }
    t.push('"');
    t
}

/// reading of a string token by the rule the parsers implement today (only `\"` is replaced):
/// used to tell, in the evidence, findings that exist only under the JSON reading of the grammar
pub fn raw_reading(token: &str) -> String {
    let inner = &token[1..token.len() - 1];
    inner.replace("\\\"", "\"")
}

/// literal tokens denoting `v` for a field of type `ty`: (form name, token text)
pub fn literal_tokens(ty: Ty, v: &Val) -> Vec<(&'static str, String)> {
    match v {
        Val::Null => vec![("lit", "null".to_string())],
        Val::S(s) | Val::X(s) | Val::J(s) => {
            let raw = string_token(s, false);
            let esc = string_token(s, true);
            if raw == esc {
                vec![("lit-raw", raw)]
            } else {
                vec![("lit-raw", raw), ("lit-esc", esc)]
            }
        }
        Val::I(i) => {
            let mut v = vec![("lit", i.to_string())];
            if ty == Ty::Int && (*i == 0 || *i == 7 || *i == -7) {
                // alternative spellings the integer grammar accepts
                v.push(("lit-alt", if *i == 0 { "-0".to_string() } else if *i == 7 { "007".to_string() } else { "-007".to_string() }));
            }
            v
        }
        Val::F(f) => {
            let mut dec = format!("{}", f);
            if !dec.contains('.') {
                dec.push_str(".0");
            }
            let mut exp = format!("{:e}", f);
            if !exp.contains('.') {
                exp = exp.replacen('e', ".0e", 1);
            }
            vec![("lit-dec", dec), ("lit-exp", exp)]
        }
        Val::B(b) => vec![("lit", b.to_string())],
    }
}

// ------------------------------------------------------------------------------------------
// numeric, boolean, base64, JSON domains
// ------------------------------------------------------------------------------------------

pub fn int_domain(_tier: Tier) -> Vec<i64> {
    let p53 = 1i64 << 53;
    let mut v = vec![
        0,
        1,
        -1,
        7,
        -7,
        10,
        255,
        i32::MAX as i64,
        i32::MIN as i64,
        (i32::MAX as i64) + 1,
        p53 - 1,
        p53,
        p53 + 1,
        -(p53 - 1),
        -p53,
        -(p53 + 1),
        1_000_000_000_000_000_000,
        i64::MAX - 1,
        i64::MAX,
        i64::MIN + 1,
        i64::MIN,
    ];
    v.dedup();
    v
}

pub fn int_class(i: i64) -> &'static str {
    let p53 = 1i64 << 53;
    if i == 0 {
        "zero"
    } else if i == i64::MAX || i == i64::MIN || i == i64::MAX - 1 || i == i64::MIN + 1 {
        "i64-extreme"
    } else if i.unsigned_abs() > p53 as u64 {
        "beyond-2^53"
    } else if i < 0 {
        "negative"
    } else {
        "positive"
    }
}

/// floats: the values listed in the design plus a grid mantissa x 10^exponent
pub fn float_domain(tier: Tier) -> Vec<f64> {
    let mut v: Vec<f64> = vec![
        0.0,
        -0.0,
        0.1,
        -1.5,
        1.0,
        2.5,
        1e-308,
        5e-324,
        2.2250738585072014e-308,
        f64::MAX,
        f64::MIN,
        1e21,
        1e22,
        1e15,
        1e16,
        9007199254740993.0,
        0.30000000000000004,
        1.0 / 3.0,
        123456789.12345679,
        1e-7,
        0.000001,
    ];
    let mant = [1.0f64, 1.5, 1.7976931348623157, 2.2250738585072014, 4.9, 3.3333333333333335, 9.007199254740993, 6.02214076, 1.2345678901234567, 7.0];
    let step = tier.pick(9, 1);
    let mut e = -324i32;
    while e <= 308 {
        for m in mant {
            for sign in [1.0f64, -1.0] {
                let t = format!("{}e{}", m, e);
                if let Ok(x) = t.parse::<f64>() {
                    let x = x * sign;
                    if x.is_finite() && x != 0.0 {
                        v.push(x);
                    }
                }
            }
        }
        e += step;
    }
    let mut seen = std::collections::BTreeSet::new();
    v.retain(|x| seen.insert(x.to_bits()));
    v
}

pub fn float_class(f: f64) -> &'static str {
    if f == 0.0 {
        return if f.is_sign_negative() { "neg-zero" } else { "zero" };
    }
    if f.abs() < f64::MIN_POSITIVE {
        return "subnormal";
    }
    // shortest round-trip decimal: d.ddddde[-]xx
    let t = format!("{:e}", f.abs());
    let (m, e) = t.split_once('e').unwrap_or((&t, "0"));
    let digits = m.chars().filter(|c| c.is_ascii_digit()).count();
    let exp: i32 = e.parse().unwrap_or(0);
    if digits <= 15 && exp.abs() <= 22 {
        "short-decimal"
    } else {
        "long-decimal-or-large-exponent"
    }
}

const B64_CHARS: &[u8; 64] = b"ABCDEFGHIJKLMNOPQRSTUVWXYZabcdefghijklmnopqrstuvwxyz0123456789-_";
pub fn b64_encode(data: &[u8]) -> String {
    // URL safe, no padding: the crate's documented binary text form (written here independently)
    let mut s = String::new();
    let mut i = 0;
    while i < data.len() {
        let b0 = data[i] as u32;
        let b1 = if i + 1 < data.len() { data[i + 1] as u32 } else { 0 };
        let b2 = if i + 2 < data.len() { data[i + 2] as u32 } else { 0 };
        let n = (b0 << 16) | (b1 << 8) | b2;
        s.push(B64_CHARS[(n >> 18) as usize & 63] as char);
        s.push(B64_CHARS[(n >> 12) as usize & 63] as char);
        if i + 1 < data.len() {
            s.push(B64_CHARS[(n >> 6) as usize & 63] as char);
        }
        if i + 2 < data.len() {
            s.push(B64_CHARS[n as usize & 63] as char);
        }
        i += 3;
    }
    s
}

/// base64 domain: (text, class). Canonical encodings of byte strings of length <= 2 (quick: all
/// of length <= 1 and the two byte strings over 16 boundary bytes), then spelling variants
/// (padding, standard alphabet, non zero trailing bits, illegal characters) that the language
/// may refuse, in which case it must refuse them everywhere.
pub fn b64_domain(tier: Tier) -> Vec<(String, &'static str)> {
    let mut v: Vec<(String, &'static str)> = vec![(String::new(), "empty")];
    for b in 0..=255u8 {
        v.push((b64_encode(&[b]), "one-byte"));
    }
    let edge: [u8; 16] = [0x00, 0x01, 0x0f, 0x3e, 0x3f, 0x40, 0x7f, 0x80, 0xbf, 0xc0, 0xf0, 0xfb, 0xfc, 0xfe, 0xff, 0x61];
    match tier {
        Tier::Quick => {
            for a in edge {
                for b in edge {
                    v.push((b64_encode(&[a, b]), "two-bytes"));
                }
            }
        }
        Tier::Thorough => {
            for a in 0..=255u8 {
                for b in 0..=255u8 {
                    v.push((b64_encode(&[a, b]), "two-bytes"));
                }
            }
        }
    }
    v.push((b64_encode(&[0xfb, 0xff, 0xbf]), "three-bytes"));
    v.push((b64_encode(b"hello world"), "longer"));
    for t in ["AA==", "AAA=", "AA=", "AAAA====", "=", "A="] {
        v.push((t.to_string(), "variant-padded"));
    }
    for t in ["+/8", "+w", "/w", "-_8"] {
        v.push((t.to_string(), if t.starts_with('-') { "three-bytes" } else { "variant-std-alphabet" }));
    }
    for t in ["AB", "AAB", "A", "AAAAA"] {
        v.push((t.to_string(), "variant-noncanonical"));
    }
    for t in ["A A", "A\nA", "AA'", "AA\"", "é", "AA\0"] {
        v.push((t.to_string(), "variant-illegal-char"));
    }
    v
}

/// JSON texts: (text, class). Atoms {null,true,1,"a\"b",[],{}}; depth 1 = arrays of <= 2 atoms and
/// objects of <= 2 members over the keys {"a","k\"q"}; depth 2 = one level more (quick: single
/// element wrappers only).
pub fn json_domain(tier: Tier) -> Vec<(String, &'static str)> {
    let atoms: Vec<String> = ["null", "true", "1", "\"a\\\"b\"", "[]", "{}"].iter().map(|s| s.to_string()).collect();
    let keys = ["\"a\"", "\"k\\\"q\""];
    let wrap = |elems: &Vec<String>, pairs: bool| -> Vec<String> {
        let mut r = vec![];
        for e in elems {
            r.push(format!("[{}]", e));
        }
        for k in keys {
            for e in elems {
                r.push(format!("{{{}:{}}}", k, e));
            }
        }
        if pairs {
            for e in elems {
                for f in elems {
                    r.push(format!("[{},{}]", e, f));
                }
            }
            for e in elems {
                for f in elems {
                    r.push(format!("{{{}:{},{}:{}}}", keys[0], e, keys[1], f));
                }
            }
        }
        r
    };
    let d1 = wrap(&atoms, true);
    let mut base = atoms.clone();
    base.extend(d1.iter().cloned());
    let d2 = wrap(&base, tier == Tier::Thorough);
    let mut all = atoms.clone();
    // a few more atoms of interest: other scalars and strings made of metacharacters
    for t in ["false", "0", "-1.5", "1e2", "\"\"", "\"it's\"", "\"a\\\\b\"", "\"\\u0000\"", "\"\\n\"", "\"é\"", "\"1\"", "\"null\""] {
        all.push(t.to_string());
    }
    all.extend(d1);
    all.extend(d2);
    // text variants of one value: member order and white space
    all.push("{\"b\":1,\"a\":2}".to_string());
    all.push("{ \"a\" : 2 , \"b\" : 1 }".to_string());
    all.push("[1, 2]".to_string());
    let mut seen = std::collections::BTreeSet::new();
    all.retain(|x| seen.insert(x.clone()));
    all.into_iter()
        .map(|t| {
            let c = match parse_json(&t) {
                Ok(JV::Null) => "json-null",
                Ok(JV::Bool(_)) => "json-bool",
                Ok(JV::Num(_)) => "json-number",
                Ok(JV::Str(_)) => "json-string",
                Ok(JV::Arr(_)) => "json-array",
                Ok(JV::Obj(_)) => "json-object",
                Err(_) => "json-invalid",
            };
            (t, c)
        })
        .collect()
}

/// abstract class of a value (for keys and for the distinct-case count)
pub fn val_class(v: &Val) -> String {
    match v {
        Val::Null => "null".into(),
        Val::S(s) => class_multiset(s),
        Val::I(i) => int_class(*i).into(),
        Val::F(f) => float_class(*f).into(),
        Val::B(b) => b.to_string(),
        Val::X(s) => {
            if s.is_empty() {
                "empty".into()
            } else if s.contains('=') {
                "padded".into()
            } else if s.contains('+') || s.contains('/') {
                "std-alphabet".into()
            } else if s.chars().any(|c| !(c.is_ascii_alphanumeric() || c == '-' || c == '_')) {
                "illegal-char".into()
            } else if s.contains('-') || s.contains('_') {
                "dash-underscore".into()
            } else {
                "alnum".into()
            }
        }
        Val::J(t) => match parse_json(t) {
            Ok(JV::Null) => "json-null".into(),
            Ok(JV::Bool(_)) => "json-bool".into(),
            Ok(JV::Num(_)) => "json-number".into(),
            Ok(JV::Str(_)) => "json-string".into(),
            Ok(JV::Arr(_)) => "json-array".into(),
            Ok(JV::Obj(_)) => "json-object".into(),
            Err(_) => "json-invalid".into(),
        },
    }
}
