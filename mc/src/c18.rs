//! C18 — every committed change is announced.
//! E-SCHED on the full service with two subscribers: every sequence of operations up to a length bound,
//! every pair issued concurrently and forced into ONE writer batch (writer gate), ingestion by a real pull
//! (complete, and interrupted after n answers). Oracle (differential): the (room, entity, day) cells whose
//! stored content changed during the measured phase must all appear in the DataChanged events received
//! once quiescent, by both subscribers; accepted room mutations must be followed by RoomModified; no
//! recompute mark may remain.
use crate::common::*;
use crate::rooms::*;
use crate::syncworld::params;
use crate::world::*;
use discret::verif::event_service::Event;
use discret::verif::database::query_language::parameter::ParametersAdd;
use discret::verif::security::Uid;
use discret::verif_hooks;
use serde_json::{json, Value};
use std::collections::{BTreeMap, BTreeSet};
use std::time::Instant;
use tokio::sync::broadcast;

#[derive(Clone, Debug, PartialEq, Eq, Hash, serde::Serialize, serde::Deserialize)]
pub enum Op {
    /// create a row: room index, entity index, day index
    Create(usize, usize, usize),
    /// update a row created on day 0 in (room, entity), at day index
    Update(usize, usize, usize),
    /// delete a row created on day 0, at day index
    Delete(usize, usize, usize),
    /// stream of k creations in (room, entity, day) then close
    Stream(usize, usize, usize, usize),
    /// room mutation: grant a right in room
    RoomMutation(usize),
    /// rows created on the other peer (room, entity, day) then pulled; cut after n answers (0 = complete)
    Pull(usize, usize, usize, usize),
    /// one mutation creating a P together with a nested q and one nested qs element: room, day
    NestedCreate(usize, usize),
    /// a P created on day 0 with a nested child through field `q` (0) or `qs` (1); at day index the child alone
    /// is changed through its unchanged owner: room, field, day
    NestedUpdate(usize, usize, usize),
    /// a new child is attached (through `qs`) to an otherwise unchanged owner created on day 0: room, day
    NestedAttach(usize, usize),
    /// ONE request holding a room mutation of room `r` and a new row of that room: room, entity, day
    RoomMutationWithRow(usize, usize, usize),
    /// ONE deletion request listing a whole row first and then a reference of another row (both written on day 0): room, day
    DeleteRowAndReference(usize, usize),
}

const ENTS: [&str; 2] = ["ns.P", "ns.Q"];
fn day_clock(d: usize) -> i64 {
    tick(4 + 4 * d as i64) + 11
}

pub fn alphabet() -> Vec<Op> {
    let mut a = vec![];
    for r in 0..2 {
        for e in 0..2 {
            for d in 0..2 {
                a.push(Op::Create(r, e, d));
            }
        }
    }
    a.push(Op::Update(0, 0, 1));
    a.push(Op::Update(1, 1, 0));
    a.push(Op::Delete(0, 0, 1));
    a.push(Op::Delete(0, 1, 0));
    a.push(Op::Stream(1, 0, 0, 3));
    a.push(Op::RoomMutation(0));
    a.push(Op::Pull(0, 0, 1, 0));
    a.push(Op::Pull(1, 1, 0, 0));
    a.push(Op::Pull(0, 0, 0, 0));
    a.push(Op::Pull(0, 1, 0, 0));
    a.push(Op::NestedCreate(0, 1));
    a.push(Op::NestedUpdate(0, 0, 1));
    a.push(Op::NestedUpdate(1, 1, 0));
    a.push(Op::NestedAttach(0, 1));
    a.push(Op::RoomMutationWithRow(0, 0, 1));
    a.push(Op::DeleteRowAndReference(0, 1));
    a
}

struct W18 {
    u: Universe,
    rooms: [URoom; 2],
    subs: Vec<broadcast::Receiver<Event>>,
    serial: usize,
}

type Cell = (usize, String, i64); // room index, entity name, day

impl W18 {
    async fn new(root: &std::path::PathBuf) -> Result<W18, String> {
        set_clock(tick(0));
        let u = Universe::start(root).await?;
        let r0 = u.create_room(0, tick(0), &[(vec![("ns.P", true, true), ("ns.Q", true, true)], vec![1], vec![])]).await?;
        let r1 = u.create_room(0, tick(0), &[(vec![("*", true, true)], vec![1], vec![])]).await?;
        u.spread_room(&r0, 0).await;
        u.spread_room(&r1, 0).await;
        // shared history: both devices hold a row of every entity on both days of both rooms, so that later pulls
        // compare whole histories (not only a first-time or last-day exchange)
        let mut k = 0;
        for room in [&r0, &r1] {
            for e in ENTS {
                for d in 0..2 {
                    // one cell stays without a shared row (second room, ns.Q, first day): a target updated or deleted
                    // there EMPTIES its cell, which must be announced like any other change
                    if room.id == r1.id && e == "ns.Q" && d == 0 {
                        continue;
                    }
                    k += 1;
                    set_clock(day_clock(d) - 9000 - k);
                    u.peers[0].mutate(&format!("mutate {{ {} {{ room_id:$r name:\"shared\" }} }}", e), Some(params(&[("r", b64(&room.id))]))).await?;
                }
            }
        }
        u.peers[0].barrier().await;
        set_clock(day_clock(1) + 100);
        for room in [&r0, &r1] {
            let st = pull(&u.peers[1], &u.peers[0], room.id, PullOpts { cut_after: None, allowed: Some(vec![room.id]) }).await;
            if !st.ok {
                return Err(format!("baseline pull failed: {:?}", st.error));
            }
        }
        u.peers[1].barrier().await;
        let subs = vec![u.peers[0].subscribe().await, u.peers[0].subscribe().await];
        Ok(W18 { u, rooms: [r0, r1], subs, serial: 0 })
    }

    /// content of every (room, entity, day) cell on A: the signatures the daily log is made of
    async fn cells(&self) -> Result<BTreeMap<Cell, Vec<String>>, String> {
        let a = &self.u.peers[0];
        let mut m: BTreeMap<Cell, Vec<String>> = BTreeMap::new();
        for (ri, room) in self.rooms.iter().enumerate() {
            let r = hex::encode_upper(room.id);
            let rows = a
                .sql(&format!(
                    "SELECT _entity, mdate, hex(_signature) FROM _node WHERE room_id = x'{r}'
                     UNION ALL SELECT entity, deletion_date, hex(signature) FROM _node_deletion_log WHERE room_id = x'{r}'
                     UNION ALL SELECT src_entity, deletion_date, hex(signature) FROM _edge_deletion_log WHERE room_id = x'{r}'"
                ))
                .await?;
            for row in rows {
                let short = row[0].text().unwrap_or("").to_string();
                let name = self.u.model.name_for(&short).unwrap_or(short);
                let day = discret::verif::date_utils::date(row[1].int().unwrap_or(0));
                m.entry((ri, name, day)).or_default().push(row[2].text().unwrap_or("").to_string());
            }
        }
        for v in m.values_mut() {
            v.sort();
        }
        Ok(m)
    }

    /// drain both subscribers; returns per subscriber (announced cells, modified rooms)
    fn drain(&mut self) -> Result<Vec<(BTreeSet<Cell>, Vec<Uid>)>, String> {
        let mut res = vec![];
        let ids: Vec<String> = self.rooms.iter().map(|r| b64(&r.id)).collect();
        for rx in self.subs.iter_mut() {
            let mut cells = BTreeSet::new();
            let mut rooms = vec![];
            loop {
                match rx.try_recv() {
                    Ok(Event::DataChanged(dm)) => {
                        for (room, ents) in &dm.rooms {
                            if let Some(ri) = ids.iter().position(|i| i == room) {
                                for (ent, days) in ents {
                                    for d in days {
                                        cells.insert((ri, ent.clone(), *d));
                                    }
                                }
                            }
                        }
                    }
                    Ok(Event::RoomModified(r)) => rooms.push(r.id),
                    Ok(_) => {}
                    Err(broadcast::error::TryRecvError::Empty) | Err(broadcast::error::TryRecvError::Closed) => break,
                    Err(broadcast::error::TryRecvError::Lagged(n)) => return Err(format!("subscriber lagged by {}", n)),
                }
            }
            res.push((cells, rooms));
        }
        Ok(res)
    }

    async fn quiesce(&self) {
        self.u.peers[0].barrier().await;
        self.u.peers[0].barrier().await;
    }

    /// unmeasured preparation of an operation (target rows, rows on the other peer)
    async fn prepare(&mut self, op: &Op) -> Result<Vec<Uid>, String> {
        self.serial += 1;
        match op {
            Op::Update(r, e, _) | Op::Delete(r, e, _) => {
                set_clock(day_clock(0) - 5000 - self.serial as i64);
                let q = self.u.peers[0]
                    .db
                    .mutate_raw(
                        &format!("mutate {{ {} {{ room_id:$r name:\"target\" }} }}", ENTS[*e]),
                        Some(params(&[("r", b64(&self.rooms[*r].id))])),
                    )
                    .await
                    .map_err(|e| e.to_string())?;
                Ok(vec![q.mutate_entities[0].node_to_mutate.id])
            }
            Op::NestedUpdate(r, f, _) => {
                set_clock(day_clock(0) - 5000 - self.serial as i64);
                let text = if *f == 0 {
                    "mutate { ns.P { room_id:$r name:\"owner\" q:{ name:\"child\" } } }"
                } else {
                    "mutate { ns.P { room_id:$r name:\"owner\" qs:[{ name:\"child\" }] } }"
                };
                let q = self.u.peers[0].db.mutate_raw(text, Some(params(&[("r", b64(&self.rooms[*r].id))]))).await.map_err(|e| e.to_string())?;
                let top = &q.mutate_entities[0];
                let child = top.sub_nodes.values().flat_map(|v| v.iter()).next().ok_or("no nested child in the prepared owner")?;
                Ok(vec![top.node_to_mutate.id, child.node_to_mutate.id])
            }
            Op::DeleteRowAndReference(r, _) => {
                // the row to delete and the owner of the reference were last written on different days
                set_clock(day_clock(0) + 777 + self.serial as i64);
                let rid = b64(&self.rooms[*r].id);
                let x = self.u.peers[0].db.mutate_raw("mutate { ns.P { room_id:$r name:\"to delete\" } }", Some(params(&[("r", rid.clone())]))).await.map_err(|e| e.to_string())?;
                set_clock(day_clock(0) - 9000 - self.serial as i64);
                let y = self.u.peers[0].db.mutate_raw("mutate { ns.P { room_id:$r name:\"owner\" qs:[{ name:\"child\" }] } }", Some(params(&[("r", rid)]))).await.map_err(|e| e.to_string())?;
                let top = &y.mutate_entities[0];
                let child = top.sub_nodes.values().flat_map(|v| v.iter()).next().ok_or("no nested child in the prepared owner")?;
                Ok(vec![x.mutate_entities[0].node_to_mutate.id, top.node_to_mutate.id, child.node_to_mutate.id])
            }
            Op::NestedAttach(r, _) => {
                set_clock(day_clock(0) - 5000 - self.serial as i64);
                let q = self.u.peers[0]
                    .db
                    .mutate_raw("mutate { ns.P { room_id:$r name:\"owner\" } }", Some(params(&[("r", b64(&self.rooms[*r].id))])))
                    .await
                    .map_err(|e| e.to_string())?;
                Ok(vec![q.mutate_entities[0].node_to_mutate.id])
            }
            Op::Pull(r, e, d, _) => {
                set_clock(day_clock(*d) + self.serial as i64);
                self.u.peers[1]
                    .mutate(
                        &format!("mutate {{ {} {{ room_id:$r name:\"remote\" }} }}", ENTS[*e]),
                        Some(params(&[("r", b64(&self.rooms[*r].id))])),
                    )
                    .await?;
                self.u.peers[1].barrier().await;
                Ok(vec![])
            }
            _ => Ok(vec![]),
        }
    }

    /// the measured part; returns whether it was acknowledged
    async fn exec(&self, op: &Op, target: &[Uid], serial: usize) -> Result<bool, String> {
        let a = &self.u.peers[0];
        match op {
            Op::Create(r, e, d) => {
                set_clock(day_clock(*d) + serial as i64);
                Ok(a.mutate(&format!("mutate {{ {} {{ room_id:$r name:\"new\" }} }}", ENTS[*e]), Some(params(&[("r", b64(&self.rooms[*r].id))]))).await.is_ok())
            }
            Op::Update(_, e, d) => {
                set_clock(day_clock(*d) + serial as i64);
                Ok(a.mutate(&format!("mutate {{ {} {{ id:$id name:\"upd\" }} }}", ENTS[*e]), Some(params(&[("id", b64(&target[0]))]))).await.is_ok())
            }
            Op::Delete(_, e, d) => {
                set_clock(day_clock(*d) + serial as i64);
                Ok(a.delete(&format!("delete {{ {} {{ $id }} }}", ENTS[*e]), Some(params(&[("id", b64(&target[0]))]))).await.is_ok())
            }
            Op::Stream(r, e, d, k) => {
                set_clock(day_clock(*d) + serial as i64);
                let (tx, mut rx) = a.db.mutation_stream();
                let mut ok = true;
                for _ in 0..*k {
                    let _ = tx
                        .send((format!("mutate {{ {} {{ room_id:$r name:\"s\" }} }}", ENTS[*e]), Some(params(&[("r", b64(&self.rooms[*r].id))]))))
                        .await;
                }
                for _ in 0..*k {
                    match rx.recv().await {
                        Some(Ok(_)) => {}
                        _ => ok = false,
                    }
                }
                drop(tx); // closing the stream requests the recompute
                Ok(ok)
            }
            Op::RoomMutation(r) => {
                set_clock(day_clock(1) + 1000 + serial as i64);
                let ev = REvent::AddRight { group: 0, entity: "ns.Q".into(), own: true, all: serial % 2 == 0 };
                let (text, p) = self.u.event_mutation(&self.rooms[*r], &ev);
                Ok(a.mutate(&text, Some(p)).await.is_ok())
            }
            Op::NestedCreate(r, d) => {
                set_clock(day_clock(*d) + serial as i64);
                Ok(a.mutate("mutate { ns.P { room_id:$r name:\"new\" q:{ name:\"nq\" } qs:[{ name:\"nqs\" }] } }", Some(params(&[("r", b64(&self.rooms[*r].id))]))).await.is_ok())
            }
            Op::NestedUpdate(_, f, d) => {
                set_clock(day_clock(*d) + serial as i64);
                let text = if *f == 0 { "mutate { ns.P { id:$id q:{ id:$c name:\"upd\" } } }" } else { "mutate { ns.P { id:$id qs:[{ id:$c name:\"upd\" }] } }" };
                Ok(a.mutate(text, Some(params(&[("id", b64(&target[0])), ("c", b64(&target[1]))]))).await.is_ok())
            }
            Op::NestedAttach(_, d) => {
                set_clock(day_clock(*d) + serial as i64);
                Ok(a.mutate("mutate { ns.P { id:$id qs:[{ name:\"attached\" }] } }", Some(params(&[("id", b64(&target[0]))]))).await.is_ok())
            }
            Op::DeleteRowAndReference(_, d) => {
                set_clock(day_clock(*d) + serial as i64);
                Ok(a.delete(
                    "delete { ns.P { $x } ns.P { $y qs[$c] } }",
                    Some(params(&[("x", b64(&target[0])), ("y", b64(&target[1])), ("c", b64(&target[2]))])),
                )
                .await
                .is_ok())
            }
            Op::RoomMutationWithRow(r, e, d) => {
                set_clock(day_clock(*d) + 2000 + serial as i64);
                let ev = REvent::AddRight { group: 0, entity: "ns.Q".into(), own: true, all: serial % 2 == 1 };
                let (text, mut p) = self.u.event_mutation(&self.rooms[*r], &ev);
                let inner = text.trim_end().strip_suffix('}').ok_or("room mutation text")?.to_string();
                p.add("rowroom", b64(&self.rooms[*r].id)).map_err(|e| e.to_string())?;
                let text = format!("{} {} {{ room_id:$rowroom name:\"with the room mutation\" }} }}", inner, ENTS[*e]);
                Ok(a.mutate(&text, Some(p)).await.is_ok())
            }
            Op::Pull(r, _, _, cut) => {
                set_clock(day_clock(1) + 5000 + serial as i64);
                let st = pull(&self.u.peers[0], &self.u.peers[1], self.rooms[*r].id, PullOpts { cut_after: if *cut == 0 { None } else { Some(*cut) }, allowed: Some(vec![self.rooms[*r].id]) }).await;
                Ok(st.ok)
            }
        }
    }
}

#[derive(Clone, Debug, serde::Serialize, serde::Deserialize)]
pub enum Workload {
    Seq(Vec<Op>),
    /// two operations forced into one writer batch
    Batch(Op, Op),
}

pub fn workloads(tier: Tier) -> Vec<Workload> {
    let a = alphabet();
    let mut w = vec![];
    for o in &a {
        w.push(Workload::Seq(vec![o.clone()]));
    }
    for o1 in &a {
        for o2 in &a {
            w.push(Workload::Seq(vec![o1.clone(), o2.clone()]));
        }
    }
    // same-batch pairs: local operations only (a pull is several batches by itself)
    let local: Vec<Op> = a.iter().filter(|o| !matches!(o, Op::Pull(..) | Op::Stream(..))).cloned().collect();
    for o1 in &local {
        for o2 in &local {
            w.push(Workload::Batch(o1.clone(), o2.clone()));
        }
    }
    // interrupted pulls at every answer index
    for n in 1..=14 {
        w.push(Workload::Seq(vec![Op::Pull(0, 0, 1, n)]));
        w.push(Workload::Seq(vec![Op::Create(0, 1, 0), Op::Pull(0, 0, 1, n)]));
    }
    if tier == Tier::Thorough {
        let core: Vec<Op> = vec![Op::Create(0, 0, 0), Op::Create(0, 1, 1), Op::Update(0, 0, 1), Op::Delete(0, 0, 1), Op::Stream(1, 0, 0, 3), Op::RoomMutation(0), Op::Pull(0, 0, 1, 0), Op::NestedUpdate(0, 0, 1), Op::NestedAttach(0, 1)];
        for o1 in &core {
            for o2 in &core {
                for o3 in &core {
                    w.push(Workload::Seq(vec![o1.clone(), o2.clone(), o3.clone()]));
                }
            }
        }
    }
    w
}

fn op_class(o: &Op) -> &'static str {
    match o {
        Op::Create(..) => "create",
        Op::Update(..) => "update",
        Op::Delete(..) => "delete",
        Op::Stream(..) => "stream",
        Op::RoomMutation(..) => "room-mutation",
        Op::Pull(_, _, _, 0) => "pull",
        Op::Pull(..) => "pull-interrupted",
        Op::NestedCreate(..) => "nested-create",
        Op::NestedUpdate(..) => "nested-update",
        Op::NestedAttach(..) => "nested-attach",
        Op::RoomMutationWithRow(..) => "room-mutation-with-row",
        Op::DeleteRowAndReference(..) => "delete-row-and-reference",
    }
}

async fn run_workload(w: &mut W18, wl: &Workload, out: &mut Outcome, verbose: bool) -> Result<(), String> {
    let ops: Vec<Op> = match wl {
        Workload::Seq(v) => v.clone(),
        Workload::Batch(a, b) => vec![a.clone(), b.clone()],
    };
    let mut targets = vec![];
    for o in &ops {
        targets.push(w.prepare(o).await?);
    }
    w.quiesce().await;
    let _ = w.drain()?;
    let before = w.cells().await?;
    let mut acked = vec![];
    let base = w.serial * 10;
    match wl {
        Workload::Seq(_) => {
            for (i, o) in ops.iter().enumerate() {
                acked.push(w.exec(o, &targets[i], base + i).await?);
                out.transitions += 1;
            }
        }
        Workload::Batch(..) => {
            // park the writer on a dummy batch, queue both operations, release: they share one transaction
            verif_hooks::close_gate("writer.before_batch");
            let a = &w.u.peers[0];
            let dummy = a.raw_write(vec![]);
            let f0 = w.exec(&ops[0], &targets[0], base);
            let f1 = w.exec(&ops[1], &targets[1], base + 1);
            let opener = async {
                // wait until the writer thread is parked at the gate and both requests had time to queue
                for _ in 0..2000 {
                    if verif_hooks::gate_status("writer.before_batch").0 >= 1 {
                        break;
                    }
                    tokio::time::sleep(std::time::Duration::from_millis(1)).await;
                }
                tokio::time::sleep(std::time::Duration::from_millis(15)).await;
                verif_hooks::open_gate("writer.before_batch");
            };
            let (_d, r0, r1, _) = tokio::join!(dummy, f0, f1, opener);
            acked.push(r0?);
            acked.push(r1?);
            out.transitions += 2;
        }
    }
    w.quiesce().await;
    let after = w.cells().await?;
    let got = w.drain()?;
    out.evaluations += 1;
    // cells whose content changed
    let mut changed: BTreeSet<Cell> = BTreeSet::new();
    for (k, v) in &after {
        if before.get(k) != Some(v) {
            changed.insert(k.clone());
        }
    }
    for k in before.keys() {
        if !after.contains_key(k) {
            changed.insert(k.clone());
        }
    }
    let classes: Vec<&str> = ops.iter().map(op_class).collect();
    let wl_class = match wl {
        Workload::Seq(_) => format!("seq[{}]", classes.join(",")),
        Workload::Batch(..) => format!("one-batch[{}]", classes.join(",")),
    };
    let replay = json!({"workload": wl});
    let mut verdict = "announced";
    for (si, (cells, _)) in got.iter().enumerate() {
        let missing: Vec<&Cell> = changed.iter().filter(|c| !cells.contains(*c)).collect();
        if !missing.is_empty() {
            verdict = "missing-data-changed";
            let which: BTreeSet<&str> = missing.iter().map(|c| c.1.as_str()).collect();
            out.violation(
                format!("workload={} clause=data-changed-missing subscriber={}", wl_class, si),
                format!("stored content of {:?} changed but no data-changed event named it (subscriber {}, entities {:?})", missing.iter().map(|c| (c.0, c.1.clone(), c.2)).collect::<Vec<_>>(), si, which),
                replay.clone(),
            );
        }
    }
    if got[0].0 != got[1].0 {
        out.violation(format!("workload={} clause=subscribers-disagree", wl_class), "two subscribers received different announcements", replay.clone());
    }
    for (i, o) in ops.iter().enumerate() {
        if let Op::RoomMutation(r) | Op::RoomMutationWithRow(r, _, _) = o {
            if acked[i] {
                for (si, (_, rooms)) in got.iter().enumerate() {
                    if !rooms.contains(&w.rooms[*r].id) {
                        verdict = "missing-room-modified";
                        out.violation(format!("workload={} clause=room-modified-missing subscriber={}", wl_class, si), "an accepted room mutation was not followed by a room-modified event", replay.clone());
                    }
                }
            }
        }
    }
    let marks = w.u.peers[0].sql("SELECT count(*) FROM _daily_log WHERE need_recompute = 1").await?;
    if marks[0][0].int().unwrap_or(0) != 0 {
        verdict = "mark-left";
        out.violation(format!("workload={} clause=recompute-mark-left", wl_class), "a recompute mark is still set once quiescent", replay.clone());
    }
    if verbose {
        println!("  workload {:?}: acked {:?} changed {:?} announced {:?} -> {}", wl, acked, changed, got[0].0, verdict);
    }
    out.count(verdict);
    out.count(&format!("changed-cells:{}", changed.len()));
    out.state(&(wl_class.clone(), changed.len(), got[0].0.len(), verdict));
    out.nontrivial(&(wl_class, changed.len(), verdict));
    if out.samples.len() < 6 && out.evaluations % 31 == 1 {
        out.sample(json!({"workload": wl, "changed_cells": changed.len(), "announced_cells": got[0].0.len(), "verdict": verdict}));
    }
    Ok(())
}

fn replay(path: &str) -> i32 {
    let text = std::fs::read_to_string(path).expect("replay file");
    let v: Value = serde_json::from_str(&text).expect("json");
    let wl: Workload = serde_json::from_value(v["replay"]["workload"].clone()).expect("workload");
    let root = scratch_root();
    let _g = ScratchGuard(root.clone());
    for round in 0..2 {
        let rt = runtime();
        let mut out = Outcome::default();
        let res: Result<(), String> = rt.block_on(async {
            let mut w = W18::new(&root).await?;
            run_workload(&mut w, &wl, &mut out, true).await
        });
        println!("replay round {}: {:?}", round, res);
        for v in &out.violations {
            println!("  {} :: {}", v.key, v.what);
        }
    }
    0
}

pub fn run(args: &Args) -> i32 {
    if let Some(p) = &args.replay {
        return replay(p);
    }
    let start = Instant::now();
    let ws = workloads(args.tier);
    if let Some((i, n)) = args.shard {
        let root = scratch_root();
        let _g = ScratchGuard(root.clone());
        let mut out = Outcome::default();
        let mine: Vec<&Workload> = ws.iter().enumerate().filter(|(k, _)| k % n == i).map(|(_, w)| w).collect();
        for chunk in mine.chunks(30) {
            let rt = runtime();
            let r: Result<(), String> = rt.block_on(async {
                let mut w = W18::new(&root).await?;
                for wl in chunk {
                    run_workload(&mut w, wl, &mut out, false).await?;
                }
                Ok(())
            });
            drop(rt);
            verif_hooks::open_gate("writer.before_batch");
            if let Err(e) = r {
                out.machinery_errors.push(e);
                break;
            }
        }
        emit_shard_outcome(&out);
        return 0;
    }
    let mut out = run_sharded(args, ncpu().min(16));
    out.traces_validated = out.evaluations;
    let meta = CheckMeta {
        prop: "C18",
        level: "model_checking",
        rule: "every sequence of <= 2 operations (3 over a 7-operation core in thorough) from a 16-operation alphabet (create/update/delete over 2 rooms x 2 entities x 2 days, stream, room mutation, ingestion by real pull), every ordered pair of local operations forced into one writer transaction with the writer gate, and pulls interrupted after 1..14 answers; differential oracle: cells whose stored content changed must be announced to both subscribers; states = distinct (workload class, changed cells, announced cells, verdict); non-trivial = distinct (workload class, changed cells, verdict)".into(),
        bounds: json!({"workloads": ws.len(), "alphabet": alphabet().len(), "subscribers": 2}),
        assumptions: vec![
            "quiescence barrier: two FIFO round trips through the database actor, the writer and the event service".into(),
            "expected announcements are derived from the stored content before/after (signatures per room, entity, day), not from the operation's intent".into(),
            "subscribers are drained after every workload (the broadcast channel holds 16 events)".into(),
        ],
        exhaustive_claim: true,
    };
    finish(args, &meta, &out, start)
}
