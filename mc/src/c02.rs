//! C02 — rows received from peers are stored only if their author had the right.
//! The remote side is the HONEST serving code over a DISHONEST database: forged rows (any author key the
//! harness holds, any date, entity, JSON, signature bytes) are written unchecked into the sender's
//! database, its daily log is computed by the real pass, and the victim pulls the room with the real
//! synchronise_room. Bounded-exhaustive over (kind x author role x date) + integrity / JSON / entity axes
//! + two-row batches, verdict compared with the rights oracle.
use crate::common::*;
use crate::light::signing_key_for;
use crate::rooms::*;
use crate::world::*;
use discret::verif::database::edge::{Edge, EdgeDeletionEntry};
use discret::verif::database::node::{Node, NodeDeletionEntry};
use discret::verif::database::query_language::parameter::{Parameters, ParametersAdd};
use discret::verif::database::sqlite_database::Writeable;
use discret::verif::security::{SigningKey, Uid};
use serde_json::{json, Value};
use std::time::Instant;

// identities (seed = index + 1): 0 A admin/creator (victim device), 1 B own-writer, 2 C all-writer,
// 3 D member (sender device), 4 O outsider, 5 X own-writer disabled at tick 8
const ROLES: [(&str, usize); 5] = [("admin", 0), ("own-writer", 1), ("all-writer", 2), ("outsider", 4), ("disabled-later", 5)];
const VICTIM: usize = 0;
const SENDER: usize = 3;

fn key(i: usize) -> Vec<u8> {
    signing_key_for((i + 1) as u8).export_verifying_key()
}

#[derive(Clone, Copy, Debug, PartialEq, Eq, Hash)]
pub enum Kind {
    NewP,
    NewQ,
    NewerOwnVersion,
    NewerForeignVersion,
    MoveIntoRoom,
    /// the victim holds the row in the room with the rich definition; the new version places it in the
    /// second room, which is the room being pulled
    MoveOutOfRoom,
    TombstoneOwn,
    TombstoneForeign,
    NewPWithEdge,
    EdgeByOtherAuthor,
    EdgeTombstoneOwn,
    EdgeTombstoneForeign,
    /// a deletion record for somebody else's reference whose creation date is one millisecond off the stored
    /// reference: it names no stored reference version, so it may remove nothing unless its author holds the
    /// all-rows right
    EdgeTombstoneForeignOtherCdate,
    /// two deletion records in one batch, both for rows of somebody else (every record of a batch needs the right)
    TombstoneForeignPair,
    /// deletion record for somebody else's row whose own date is a valid one whatever the date of the deletion: the
    /// right is needed at the date of the DELETION
    TombstoneForeignRowDatedValid,
}
const KINDS: [Kind; 15] = [
    Kind::NewP,
    Kind::NewQ,
    Kind::NewerOwnVersion,
    Kind::NewerForeignVersion,
    Kind::MoveIntoRoom,
    Kind::MoveOutOfRoom,
    Kind::TombstoneOwn,
    Kind::TombstoneForeign,
    Kind::NewPWithEdge,
    Kind::EdgeByOtherAuthor,
    Kind::EdgeTombstoneOwn,
    Kind::EdgeTombstoneForeign,
    Kind::EdgeTombstoneForeignOtherCdate,
    Kind::TombstoneForeignPair,
    Kind::TombstoneForeignRowDatedValid,
];

#[derive(Clone, Copy, Debug, PartialEq, Eq, Hash)]
pub enum DateK {
    Valid,
    BeforeMembership,
    AfterDisable,
    FarFuture,
}
const DATES: [DateK; 4] = [DateK::Valid, DateK::BeforeMembership, DateK::AfterDisable, DateK::FarFuture];
fn date_of(d: DateK) -> i64 {
    match d {
        DateK::Valid => tick(4) + 5,
        DateK::BeforeMembership => tick(0) - DAY + 5,
        DateK::AfterDisable => tick(12) + 5,
        DateK::FarFuture => tick(4000) + 5,
    }
}

#[derive(Clone, Copy, Debug, PartialEq, Eq, Hash)]
pub enum Variant {
    Plain,
    TamperedJson,
    SignatureOfAnotherRow,
    ShortSignature,
    MissingRequiredField,
    WrongFieldType,
    NonObjectJson,
    Oversized,
    UnknownEntity,
    SysUserAuthEntity,
    SysRightEntity,
    /// typed fields holding a value of another JSON type (every row is otherwise valid and validly signed)
    FloatInIntegerField,
    StringInIntegerField,
    BooleanInFloatField,
    StringInBooleanField,
    NullInRequiredField,
    /// conforming: a Float field may hold a JSON integer (what a local write with an integer parameter stores)
    IntegerInFloatField,
}
const VARIANTS: [Variant; 17] = [
    Variant::Plain,
    Variant::TamperedJson,
    Variant::SignatureOfAnotherRow,
    Variant::ShortSignature,
    Variant::MissingRequiredField,
    Variant::WrongFieldType,
    Variant::NonObjectJson,
    Variant::Oversized,
    Variant::UnknownEntity,
    Variant::SysUserAuthEntity,
    Variant::SysRightEntity,
    Variant::FloatInIntegerField,
    Variant::StringInIntegerField,
    Variant::BooleanInFloatField,
    Variant::StringInBooleanField,
    Variant::NullInRequiredField,
    Variant::IntegerInFloatField,
];

#[derive(Clone, Debug)]
pub struct Case {
    pub kind: Kind,
    pub role: usize,
    pub date: DateK,
    pub variant: Variant,
    /// an honest row travels in the same day batch: 0 none, 1 honest listed with the forged one
    pub with_honest: bool,
}

pub fn cases(tier: Tier) -> Vec<Case> {
    let mut v = vec![];
    for k in KINDS {
        for r in 0..ROLES.len() {
            for d in DATES {
                v.push(Case { kind: k, role: r, date: d, variant: Variant::Plain, with_honest: false });
            }
        }
    }
    // integrity / JSON / entity axes on node kinds, with an author that would otherwise be accepted and one that would not
    for k in [Kind::NewP, Kind::NewQ, Kind::NewerOwnVersion, Kind::NewerForeignVersion, Kind::MoveIntoRoom, Kind::MoveOutOfRoom] {
        for var in VARIANTS.iter().skip(1) {
            for r in if tier == Tier::Thorough { vec![0, 1, 2, 3, 4] } else { vec![2, 3] } {
                for d in if tier == Tier::Thorough { DATES.to_vec() } else { vec![DateK::Valid] } {
                    v.push(Case { kind: k, role: r, date: d, variant: *var, with_honest: false });
                }
            }
        }
    }
    // batches: an honest row in the same (entity, day) as the forged one
    let batch_kinds: Vec<Kind> = if tier == Tier::Thorough { KINDS.to_vec() } else { vec![Kind::NewP, Kind::NewerForeignVersion, Kind::TombstoneForeign] };
    let batch_vars: Vec<Variant> = if tier == Tier::Thorough { VARIANTS.to_vec() } else { vec![Variant::Plain, Variant::TamperedJson, Variant::ShortSignature, Variant::WrongFieldType, Variant::UnknownEntity] };
    for k in batch_kinds {
        let node_kind = matches!(k, Kind::NewP | Kind::NewQ | Kind::NewerOwnVersion | Kind::NewerForeignVersion | Kind::MoveIntoRoom | Kind::MoveOutOfRoom);
        for var in batch_vars.iter().copied() {
            // the integrity / JSON / entity variants only exist for rows
            if !node_kind && var != Variant::Plain {
                continue;
            }
            for r in if tier == Tier::Thorough { vec![0usize, 1, 2, 3, 4] } else { vec![1usize, 3] } {
                v.push(Case { kind: k, role: r, date: DateK::Valid, variant: var, with_honest: true });
            }
        }
    }
    v
}

pub struct World {
    pub u: Universe,
    pub r2: Uid,
}

fn ro_for_room() -> RO {
    let mut ro = RO::default();
    let t0 = tick(0);
    ro.push(Entry { ev: REvent::AddAdmin { key: 0, enabled: true }, by: 0, date: t0 });
    ro.push(Entry { ev: REvent::AddGroup, by: 0, date: t0 });
    ro.push(Entry { ev: REvent::AddGroup, by: 0, date: t0 });
    ro.push(Entry { ev: REvent::AddRight { group: 0, entity: "ns.P".into(), own: true, all: false }, by: 0, date: t0 });
    // the same group also holds a wildcard right that grants more: the specific right decides for ns.P
    ro.push(Entry { ev: REvent::AddRight { group: 0, entity: "*".into(), own: true, all: true }, by: 0, date: t0 });
    ro.push(Entry { ev: REvent::AddRight { group: 1, entity: "*".into(), own: true, all: true }, by: 0, date: t0 });
    for k in [1usize, 5, 3] {
        ro.push(Entry { ev: REvent::AddUser { group: 0, key: k, enabled: true }, by: 0, date: t0 });
    }
    ro.push(Entry { ev: REvent::AddUser { group: 1, key: 2, enabled: true }, by: 0, date: t0 });
    ro.push(Entry { ev: REvent::AddUser { group: 0, key: 5, enabled: false }, by: 0, date: tick(8) });
    ro
}

/// the room every case runs in (fresh per case): built with real mutations on the victim, imported by the sender
async fn make_room(u: &Universe) -> Result<Uid, String> {
    set_clock(tick(0));
    let mut p = Parameters::default();
    for (n, i) in [("a", 0usize), ("b", 1), ("c", 2), ("d", 3), ("x", 5)] {
        p.add(n, b64(&key(i))).unwrap();
    }
    let q = u.peers[VICTIM]
        .db
        .mutate_raw(
            r#"mutate { sys.Room { admin:[{verif_key:$a}] authorisations:[
                {name:"g0" rights:[{entity:"ns.P" mutate_self:true mutate_all:false},{entity:"*" mutate_self:true mutate_all:true}] users:[{verif_key:$b},{verif_key:$x},{verif_key:$d}]},
                {name:"g1" rights:[{entity:"*" mutate_self:true mutate_all:true}] users:[{verif_key:$c}]}
            ] } }"#,
            Some(p),
        )
        .await
        .map_err(|e| e.to_string())?;
    let ent = &q.mutate_entities[0];
    let room = ent.node_to_mutate.id;
    // g0 is the authorisation that has three users
    let auths = ent.sub_nodes.get("authorisations").ok_or("no auths")?;
    let g0 = auths
        .iter()
        .find(|a| a.sub_nodes.get("users").map(|u| u.len() == 3).unwrap_or(false))
        .ok_or("g0 not found")?
        .node_to_mutate
        .id;
    set_clock(tick(8));
    let mut p = Parameters::default();
    p.add("room", b64(&room)).unwrap();
    p.add("g", b64(&g0)).unwrap();
    p.add("x", b64(&key(5))).unwrap();
    u.peers[VICTIM]
        .db
        .mutate_raw(
            "mutate { sys.Room { id:$room authorisations:[{ id:$g users:[{verif_key:$x enabled:false}] }] } }",
            Some(p),
        )
        .await
        .map_err(|e| e.to_string())?;
    u.peers[VICTIM].barrier().await;
    transfer_room_def(&u.peers[SENDER], &u.peers[VICTIM], room).await?;
    Ok(room)
}

/// second room where every identity but the outsider holds every right
async fn make_r2(u: &Universe) -> Result<Uid, String> {
    set_clock(tick(0) - 10 * DAY);
    let mut p = Parameters::default();
    for (n, i) in [("a", 0usize), ("b", 1), ("c", 2), ("d", 3), ("x", 5)] {
        p.add(n, b64(&key(i))).unwrap();
    }
    let q = u.peers[VICTIM]
        .db
        .mutate_raw(
            r#"mutate { sys.Room { admin:[{verif_key:$a}] authorisations:[
                {name:"all" rights:[{entity:"*" mutate_self:true mutate_all:true}] users:[{verif_key:$b},{verif_key:$c},{verif_key:$d},{verif_key:$x}]}
            ] } }"#,
            Some(p),
        )
        .await
        .map_err(|e| e.to_string())?;
    let room = q.mutate_entities[0].node_to_mutate.id;
    u.peers[VICTIM].barrier().await;
    transfer_room_def(&u.peers[SENDER], &u.peers[VICTIM], room).await?;
    Ok(room)
}

fn signed_node(entity: &str, room: Uid, author: usize, cdate: i64, mdate: i64, json: String, id: Option<Uid>) -> Node {
    set_clock(cdate);
    let mut n = Node {
        room_id: Some(room),
        cdate,
        mdate,
        _entity: entity.to_string(),
        _json: Some(json),
        ..Default::default()
    };
    if let Some(id) = id {
        n.id = id;
    }
    let sk = signing_key_for((author + 1) as u8);
    if n.sign(&sk).is_err() {
        // sign() refuses what verify() refuses (non object JSON): sign the real digest by hand
        n.verifying_key = sk.export_verifying_key();
        let h = n.hash().expect("digest");
        n._signature = sk.sign(h.as_bytes());
    }
    n
}

async fn plant_indexed(peer: &FPeer, nodes: Vec<Node>, edges: Vec<Edge>, ntomb: Vec<(Uid, Node, i64, usize)>, etomb: Vec<(Uid, Edge, i64, usize)>) -> Result<(), String> {
    peer.write_unchecked(Box::new(FnWrite(Box::new(move |conn| {
        for n in &nodes {
            let mut n = n.clone();
            n._local_id = None;
            let mut fts = String::new();
            if let Some(j) = &n._json {
                if let Ok(v) = serde_json::from_str::<Value>(j) {
                    let _ = discret::verif::database::node::extract_json(&v, &mut fts);
                }
            }
            n.write(conn, true, &None, &Some(fts))?;
        }
        for e in &edges {
            e.write(conn)?;
        }
        for (room, n, d, a) in &ntomb {
            let mut t = NodeDeletionEntry::build(*room, n, *d, &signing_key_for((*a + 1) as u8));
            Writeable::write(&mut t, conn)?;
        }
        for (room, e, d, a) in &etomb {
            let mut t = EdgeDeletionEntry::build(*room, e, *d, &signing_key_for((*a + 1) as u8));
            Writeable::write(&mut t, conn)?;
        }
        Ok(())
    }))))
    .await
}

async fn mark_days(peer: &FPeer, room: &Uid, entity: &str, dates: &[i64]) -> Result<(), String> {
    let mut stmts = vec![];
    for d in dates {
        let day = discret::verif::date_utils::date(*d);
        stmts.push(format!(
            "INSERT INTO _daily_log (room_id, entity, date, entry_number, daily_hash, history_hash, need_recompute) VALUES (x'{}','{}',{},0,NULL,NULL,1) ON CONFLICT(room_id, entity, date) DO UPDATE SET daily_hash = NULL, need_recompute = 1",
            hex::encode_upper(room), entity, day
        ));
    }
    peer.raw_write(stmts).await?;
    peer.db.compute_daily_log().await;
    peer.barrier().await;
    Ok(())
}

#[derive(Debug)]
struct Expectation {
    /// should the forged item be stored/applied
    accept: bool,
    why: String,
}

fn need_ok(ro: &RO, author: usize, entity: &str, date: i64, right: Right) -> bool {
    ro.can(author, entity, date, right)
}

pub async fn run_case(w: &World, c: &Case, out: &mut Outcome, verbose: bool) -> Result<(), String> {
    let u = &w.u;
    let room = make_room(u).await?;
    out.transitions += 3;
    let ro = ro_for_room();
    let author = ROLES[c.role].1;
    let role = ROLES[c.role].0;
    let d = date_of(c.date);
    let victim = &u.peers[VICTIM];
    let sender = &u.peers[SENDER];
    let other = if author == 1 { 2 } else { 1 }; // a different author for stored versions
    let pj = |name: &str| json!({ u.p_name.clone(): name }).to_string();
    let qj = |name: &str| json!({ u.q_name.clone(): name }).to_string();

    // JSON / entity variants apply to the forged node
    let (entity_short, entity_name, body) = match c.variant {
        Variant::MissingRequiredField => (u.p_short.clone(), "ns.P", json!({}).to_string()),
        Variant::WrongFieldType => (u.p_short.clone(), "ns.P", json!({ u.p_name.clone(): 5 }).to_string()),
        Variant::NonObjectJson => (u.p_short.clone(), "ns.P", "[1]".to_string()),
        Variant::FloatInIntegerField => (u.p_short.clone(), "ns.P", json!({ u.p_name.clone(): "forged", u.p_n.clone(): 1.5 }).to_string()),
        Variant::StringInIntegerField => (u.p_short.clone(), "ns.P", json!({ u.p_name.clone(): "forged", u.p_n.clone(): "5" }).to_string()),
        Variant::BooleanInFloatField => (u.p_short.clone(), "ns.P", json!({ u.p_name.clone(): "forged", u.p_f.clone(): true }).to_string()),
        Variant::StringInBooleanField => (u.p_short.clone(), "ns.P", json!({ u.p_name.clone(): "forged", u.p_b.clone(): "true" }).to_string()),
        Variant::NullInRequiredField => (u.p_short.clone(), "ns.P", json!({ u.p_name.clone(): Value::Null }).to_string()),
        Variant::IntegerInFloatField => (u.p_short.clone(), "ns.P", json!({ u.p_name.clone(): "forged", u.p_f.clone(): 70 }).to_string()),
        Variant::Oversized => (u.p_short.clone(), "ns.P", pj(&"z".repeat(300 * 1024))),
        Variant::UnknownEntity => ("99.99".to_string(), "?", pj("forged")),
        Variant::SysUserAuthEntity => ("0.2".to_string(), "sys.UserAuth", json!({"32": b64(&key(author)), "33": true}).to_string()),
        Variant::SysRightEntity => ("0.3".to_string(), "sys.EntityRight", json!({"32": "*", "33": true, "34": true}).to_string()),
        _ => match c.kind {
            Kind::NewQ => (u.q_short.clone(), "ns.Q", qj("forged")),
            _ => (u.p_short.clone(), "ns.P", pj("forged")),
        },
    };
    let model_ok = !matches!(
        c.variant,
        Variant::MissingRequiredField
            | Variant::WrongFieldType
            | Variant::NonObjectJson
            | Variant::Oversized
            | Variant::UnknownEntity
            | Variant::FloatInIntegerField
            | Variant::StringInIntegerField
            | Variant::BooleanInFloatField
            | Variant::StringInBooleanField
            | Variant::NullInRequiredField
    );
    let sys_entity = matches!(c.variant, Variant::SysUserAuthEntity | Variant::SysRightEntity);
    let integrity_ok = !matches!(c.variant, Variant::TamperedJson | Variant::SignatureOfAnotherRow | Variant::ShortSignature | Variant::NonObjectJson);

    let mut victim_nodes = vec![];
    let mut victim_edges = vec![];
    let mut sender_nodes = vec![];
    let mut sender_edges = vec![];
    let mut sender_ntomb = vec![];
    let mut sender_etomb = vec![];
    let mut mark: Vec<(String, i64)> = vec![];
    let right_needed: Vec<(bool, &str, Right)>; // (in r2?, entity, right)
    // what to look for afterwards
    enum Probe {
        NodeVersion(Uid, i64, Vec<u8>),
        NodeGone(Uid, i64),
        EdgeStored(Uid, String, Uid, Vec<u8>),
        EdgeGone(Uid, String, Uid, i64),
        /// the stored reference itself has disappeared (whatever the deletion log says)
        EdgeRemoved(Uid, String, Uid),
        /// one of several rows has disappeared or has a deletion record
        AnyNodeGone(Vec<Uid>, i64),
    }
    let probe: Probe;
    let mut pulled = room;
    match c.kind {
        Kind::NewP | Kind::NewQ => {
            let n = signed_node(&entity_short, room, author, d, d, body.clone(), None);
            probe = Probe::NodeVersion(n.id, n.mdate, n._signature.clone());
            mark.push((entity_short.clone(), d));
            sender_nodes.push(n);
            right_needed = vec![(false, entity_name, Right::Own)];
        }
        Kind::NewerOwnVersion | Kind::NewerForeignVersion => {
            let prev_author = if c.kind == Kind::NewerOwnVersion { author } else { other };
            let old = signed_node(&u.p_short, room, prev_author, d - 2000, d - 1000, pj("old"), None);
            let n = signed_node(&entity_short, room, author, old.cdate, d, body.clone(), Some(old.id));
            probe = Probe::NodeVersion(n.id, n.mdate, n._signature.clone());
            mark.push((entity_short.clone(), d));
            victim_nodes.push(old);
            sender_nodes.push(n);
            right_needed = vec![(false, entity_name, if c.kind == Kind::NewerOwnVersion { Right::Own } else { Right::All })];
        }
        Kind::MoveIntoRoom => {
            // the victim holds the row in r2 (same author); the new version places it in the pulled room
            let old = signed_node(&u.p_short, w.r2, author, d - 2000, d - 1000, pj("old"), None);
            let n = signed_node(&entity_short, room, author, old.cdate, d, body.clone(), Some(old.id));
            probe = Probe::NodeVersion(n.id, n.mdate, n._signature.clone());
            mark.push((entity_short.clone(), d));
            victim_nodes.push(old);
            sender_nodes.push(n);
            right_needed = vec![(false, entity_name, Right::Own), (true, entity_name, Right::Own)];
        }
        Kind::MoveOutOfRoom => {
            // the victim holds the row in `room` (same author); the new version places it in r2, and r2 is pulled
            // the stored version dates from a time the author could write (when the new one is later than that)
            let od = if d > date_of(DateK::Valid) { date_of(DateK::Valid) - 1000 } else { d - 1000 };
            let old = signed_node(&u.p_short, room, author, od - 1000, od, pj("old"), None);
            let n = signed_node(&entity_short, w.r2, author, old.cdate, d, body.clone(), Some(old.id));
            probe = Probe::NodeVersion(n.id, n.mdate, n._signature.clone());
            mark.push((entity_short.clone(), d));
            victim_nodes.push(old);
            sender_nodes.push(n);
            pulled = w.r2;
            right_needed = vec![(false, entity_name, Right::Own), (true, entity_name, Right::Own)];
        }
        Kind::TombstoneOwn | Kind::TombstoneForeign => {
            let row_author = if c.kind == Kind::TombstoneOwn { author } else { other };
            let old = signed_node(&u.p_short, room, row_author, d - 2000, d - 1000, pj("victim-row"), None);
            probe = Probe::NodeGone(old.id, d);
            mark.push((u.p_short.clone(), d));
            mark.push((u.p_short.clone(), old.mdate));
            sender_ntomb.push((room, old.clone(), d, author));
            victim_nodes.push(old);
            right_needed = vec![(false, "ns.P", if c.kind == Kind::TombstoneOwn { Right::Own } else { Right::All })];
        }
        Kind::TombstoneForeignPair => {
            let mut ids = vec![];
            for name in ["victim-row-1", "victim-row-2"] {
                let old = signed_node(&u.p_short, room, other, d - 2000, d - 1000, pj(name), None);
                ids.push(old.id);
                mark.push((u.p_short.clone(), old.mdate));
                sender_ntomb.push((room, old.clone(), d, author));
                victim_nodes.push(old);
            }
            mark.push((u.p_short.clone(), d));
            probe = Probe::AnyNodeGone(ids, d);
            right_needed = vec![(false, "ns.P", Right::All)];
        }
        Kind::TombstoneForeignRowDatedValid => {
            let rd = date_of(DateK::Valid);
            let old = signed_node(&u.p_short, room, other, rd - 2000, rd - 1000, pj("victim-row"), None);
            probe = Probe::NodeGone(old.id, d);
            mark.push((u.p_short.clone(), d));
            mark.push((u.p_short.clone(), old.mdate));
            sender_ntomb.push((room, old.clone(), d, author));
            victim_nodes.push(old);
            right_needed = vec![(false, "ns.P", Right::All)];
        }
        Kind::NewPWithEdge | Kind::EdgeByOtherAuthor => {
            // a new P row by an entitled author (the all-writer C at a valid date unless the case's author is used),
            // a Q row, and the reference P.qs -> Q signed by the case's author
            let node_author = if c.kind == Kind::NewPWithEdge { author } else { 2 };
            let nd = if c.kind == Kind::NewPWithEdge { d } else { date_of(DateK::Valid) };
            let pn = signed_node(&u.p_short, room, node_author, nd, nd, pj("src"), None);
            let qn = signed_node(&u.q_short, room, 2, date_of(DateK::Valid), date_of(DateK::Valid), qj("dst"), None);
            let mut e = Edge { src: pn.id, src_entity: u.p_short.clone(), label: u.p_qs.clone(), dest: qn.id, cdate: d, ..Default::default() };
            e.sign(&signing_key_for((author + 1) as u8)).unwrap();
            probe = Probe::EdgeStored(e.src, e.label.clone(), e.dest, e.signature.clone());
            mark.push((u.p_short.clone(), nd));
            mark.push((u.q_short.clone(), date_of(DateK::Valid)));
            sender_nodes.push(pn);
            sender_nodes.push(qn);
            sender_edges.push(e);
            // the reference belongs to its source row: creating it on one's own new row needs the own-rows right,
            // on somebody else's row the all-rows right
            right_needed = vec![(false, "ns.P", if c.kind == Kind::NewPWithEdge { Right::Own } else { Right::All })];
        }
        Kind::EdgeTombstoneOwn | Kind::EdgeTombstoneForeign => {
            let edge_author = if c.kind == Kind::EdgeTombstoneOwn { author } else { other };
            let pn = signed_node(&u.p_short, room, edge_author, d - 3000, d - 2000, pj("src"), None);
            let qn = signed_node(&u.q_short, room, edge_author, d - 3000, d - 2000, qj("dst"), None);
            let mut e = Edge { src: pn.id, src_entity: u.p_short.clone(), label: u.p_qs.clone(), dest: qn.id, cdate: d - 2000, ..Default::default() };
            e.sign(&signing_key_for((edge_author + 1) as u8)).unwrap();
            probe = Probe::EdgeGone(e.src, e.label.clone(), e.dest, d);
            mark.push((u.p_short.clone(), d));
            sender_etomb.push((room, e.clone(), d, author));
            victim_nodes.push(pn);
            victim_nodes.push(qn);
            victim_edges.push(e);
            right_needed = vec![(false, "ns.P", if c.kind == Kind::EdgeTombstoneOwn { Right::Own } else { Right::All })];
        }
        Kind::EdgeTombstoneForeignOtherCdate => {
            let pn = signed_node(&u.p_short, room, other, d - 3000, d - 2000, pj("src"), None);
            let qn = signed_node(&u.q_short, room, other, d - 3000, d - 2000, qj("dst"), None);
            let mut e = Edge { src: pn.id, src_entity: u.p_short.clone(), label: u.p_qs.clone(), dest: qn.id, cdate: d - 2000, ..Default::default() };
            e.sign(&signing_key_for((other + 1) as u8)).unwrap();
            let mut named = e.clone();
            named.cdate += 1;
            probe = Probe::EdgeRemoved(e.src, e.label.clone(), e.dest);
            mark.push((u.p_short.clone(), d));
            sender_etomb.push((room, named, d, author));
            victim_nodes.push(pn);
            victim_nodes.push(qn);
            victim_edges.push(e);
            right_needed = vec![(false, "ns.P", Right::All)];
        }
    }
    // integrity variants on the forged node (the last node pushed for node kinds)
    if matches!(c.kind, Kind::NewP | Kind::NewQ | Kind::NewerOwnVersion | Kind::NewerForeignVersion | Kind::MoveIntoRoom | Kind::MoveOutOfRoom) {
        let n = sender_nodes.last_mut().unwrap();
        match c.variant {
            Variant::TamperedJson => {
                n._json = Some(pj("tampered-after-signing"));
            }
            Variant::SignatureOfAnotherRow => {
                let o = signed_node(&u.p_short, room, author, d, d, pj("another row"), None);
                n._signature = o._signature;
            }
            Variant::ShortSignature => {
                n._signature.truncate(63);
            }
            _ => {}
        }
        if let Probe::NodeVersion(id, m, _) = &probe {
            let _ = (id, m);
        }
    }
    let probe = match probe {
        Probe::NodeVersion(id, m, _) => {
            let sig = sender_nodes.iter().find(|n| n.id == id && n.mdate == m).map(|n| n._signature.clone()).unwrap_or_default();
            Probe::NodeVersion(id, m, sig)
        }
        p => p,
    };

    // an honest row (all-writer C, valid date, same entity and day as the forged item) travelling along
    let mut honest: Option<Node> = None;
    if c.with_honest {
        // the honest row lives in the room that is pulled (for a move out of the first room that is the second one)
        let hn = signed_node(&u.p_short, pulled, 2, d, d, pj("honest"), None);
        honest = Some(hn.clone());
        mark.push((u.p_short.clone(), d));
        sender_nodes.insert(0, hn);
    }

    plant_indexed(victim, victim_nodes, victim_edges, vec![], vec![]).await?;
    plant_indexed(sender, sender_nodes, sender_edges, sender_ntomb, sender_etomb).await?;
    let mut by_entity: std::collections::BTreeMap<String, Vec<i64>> = Default::default();
    for (e, dd) in &mark {
        by_entity.entry(e.clone()).or_default().push(*dd);
    }
    for (e, ds) in &by_entity {
        mark_days(sender, &pulled, e, ds).await?;
    }
    out.transitions += 3;

    // oracle
    let mut accept = integrity_ok && model_ok && !sys_entity;
    let mut why = vec![];
    if !integrity_ok {
        why.push("integrity".to_string());
    }
    if !model_ok {
        why.push("model".to_string());
    }
    if sys_entity {
        why.push("authorisation-entity".to_string());
    }
    let ro2_can = |a: usize| a != 4; // r2: everybody but the outsider, any date after its creation
    for (in_r2, ent, right) in &right_needed {
        let ok = if *in_r2 { ro2_can(author) } else { need_ok(&ro, author, ent, d, *right) };
        if !ok {
            accept = false;
            why.push(format!("{}:{:?}", if *in_r2 { "r2" } else { "room" }, right));
        }
    }
    let exp = Expectation { accept, why: why.join("+") };

    set_clock(tick(16));
    let before_fp = fingerprint(victim).await?;
    let st = pull(victim, sender, pulled, PullOpts { cut_after: None, allowed: Some(vec![pulled]) }).await;
    out.transitions += st.answers as u64;
    out.evaluations += 1;
    let after_fp = fingerprint(victim).await?;

    let stored = match &probe {
        Probe::NodeVersion(id, m, sig) => {
            let r = victim
                .sql(&format!("SELECT count(*) FROM _node WHERE id = x'{}' AND mdate = {} AND _signature = x'{}'", hex::encode_upper(id), m, hex::encode_upper(sig)))
                .await?;
            r[0][0].int().unwrap_or(0) > 0
        }
        Probe::NodeGone(id, dd) => {
            let r = victim.sql(&format!("SELECT count(*) FROM _node WHERE id = x'{}'", hex::encode_upper(id))).await?;
            let t = victim
                .sql(&format!("SELECT count(*) FROM _node_deletion_log WHERE id = x'{}' AND deletion_date = {}", hex::encode_upper(id), dd))
                .await?;
            let gone = r[0][0].int().unwrap_or(0) == 0;
            let logged = t[0][0].int().unwrap_or(0) > 0;
            if gone != logged {
                out.count("tombstone-half-applied");
            }
            gone || logged
        }
        Probe::EdgeStored(s, l, dst, sig) => {
            let r = victim
                .sql(&format!("SELECT count(*) FROM _edge WHERE src = x'{}' AND label = '{}' AND dest = x'{}' AND signature = x'{}'", hex::encode_upper(s), l, hex::encode_upper(dst), hex::encode_upper(sig)))
                .await?;
            r[0][0].int().unwrap_or(0) > 0
        }
        Probe::EdgeGone(s, l, dst, dd) => {
            let r = victim
                .sql(&format!("SELECT count(*) FROM _edge WHERE src = x'{}' AND label = '{}' AND dest = x'{}'", hex::encode_upper(s), l, hex::encode_upper(dst)))
                .await?;
            let t = victim
                .sql(&format!("SELECT count(*) FROM _edge_deletion_log WHERE src = x'{}' AND dest = x'{}' AND deletion_date = {}", hex::encode_upper(s), hex::encode_upper(dst), dd))
                .await?;
            r[0][0].int().unwrap_or(0) == 0 || t[0][0].int().unwrap_or(0) > 0
        }
        Probe::AnyNodeGone(ids, dd) => {
            let mut any = false;
            for id in ids {
                let r = victim.sql(&format!("SELECT count(*) FROM _node WHERE id = x'{}'", hex::encode_upper(id))).await?;
                let t = victim
                    .sql(&format!("SELECT count(*) FROM _node_deletion_log WHERE id = x'{}' AND deletion_date = {}", hex::encode_upper(id), dd))
                    .await?;
                if r[0][0].int().unwrap_or(0) == 0 || t[0][0].int().unwrap_or(0) > 0 {
                    any = true;
                }
            }
            any
        }
        Probe::EdgeRemoved(s, l, dst) => {
            let r = victim
                .sql(&format!("SELECT count(*) FROM _edge WHERE src = x'{}' AND label = '{}' AND dest = x'{}'", hex::encode_upper(s), l, hex::encode_upper(dst)))
                .await?;
            r[0][0].int().unwrap_or(0) == 0
        }
    };
    let replay = json!({"kind": format!("{:?}", c.kind), "role": c.role, "date": format!("{:?}", c.date), "variant": format!("{:?}", c.variant), "with_honest": c.with_honest});
    let verdict = format!("{}:{}", if stored { "stored" } else { "rejected" }, if exp.accept { "should-accept" } else { "should-reject" });
    if verbose {
        println!("  case {:?} author={} date={:?} variant={:?} honest={} -> {} (oracle: {}) pull={:?}", c.kind, role, c.date, c.variant, c.with_honest, verdict, exp.why, st);
    }
    let base = format!("kind={:?} variant={:?} author={} date={:?}", c.kind, c.variant, role, c.date);
    if stored && !exp.accept {
        out.violation(
            format!("{} clause=stored-without-right missing={}", base, exp.why),
            format!("a forged {:?} by the {} dated {:?} was stored although {} fails", c.kind, role, c.date, exp.why),
            replay.clone(),
        );
    }
    if !stored && exp.accept {
        // not a violation of "only if", but C02 also says the verdict depends on the row alone: report
        // refusals of rows that fulfil every stated condition as a separate (weaker) clause
        out.count(&format!("refused-although-entitled kind={:?} author={} date={:?}", c.kind, role, c.date));
    }
    let _ = (&before_fp, &after_fp);
    if !stored && !exp.accept {
        // "a rejected row leaves no trace": nothing carrying the forged identity, signature or day may remain
        let mut traces = vec![];
        match &probe {
            Probe::NodeVersion(id, m, sig) => {
                let r = victim.sql(&format!("SELECT count(*) FROM _node WHERE _signature = x'{}' OR (id = x'{}' AND mdate = {})", hex::encode_upper(sig), hex::encode_upper(id), m)).await?;
                if r[0][0].int().unwrap_or(0) > 0 {
                    traces.push("node-row");
                }
                let fresh_day = matches!(c.kind, Kind::NewP | Kind::NewQ) && !c.with_honest;
                if fresh_day {
                    let day = discret::verif::date_utils::date(*m);
                    let r = victim.sql(&format!("SELECT count(*) FROM _daily_log WHERE room_id = x'{}' AND date = {}", hex::encode_upper(room), day)).await?;
                    if r[0][0].int().unwrap_or(0) > 0 {
                        traces.push("daily-log-row");
                    }
                }
            }
            Probe::NodeGone(..) | Probe::EdgeStored(..) | Probe::EdgeGone(..) | Probe::EdgeRemoved(..) | Probe::AnyNodeGone(..) => {}
        }
        for t in traces {
            out.violation(
                format!("{} clause=rejected-but-left-{}", base, t),
                format!("the forged item was rejected but left a {} behind", t),
                replay.clone(),
            );
        }
    }
    if let Some(h) = &honest {
        let r = victim
            .sql(&format!("SELECT count(*) FROM _node WHERE id = x'{}' AND _signature = x'{}'", hex::encode_upper(h.id), hex::encode_upper(&h._signature)))
            .await?;
        let got = r[0][0].int().unwrap_or(0) > 0;
        out.count(if got { "honest-neighbour-stored" } else { "honest-neighbour-lost" });
        if !got {
            let key = if st.error.is_some() {
                // one defect whatever the forged neighbour is: a row that fails verification aborts the whole pull
                "clause=honest-row-blocked-by-forged-neighbour reason=verification-failure-aborts-the-pull".to_string()
            } else {
                format!("kind={:?} variant={:?} clause=honest-row-blocked-by-forged-neighbour", c.kind, c.variant)
            };
            out.violation(
                key,
                format!("an honest row in the same batch as a forged {:?}/{:?} was not stored (pull result: {:?})", c.kind, c.variant, st.error),
                replay.clone(),
            );
        }
    }
    out.count(&verdict);
    out.state(&(format!("{:?}", c.kind), role, format!("{:?}", c.date), format!("{:?}", c.variant), &verdict));
    out.nontrivial(&(format!("{:?}", c.kind), &verdict, exp.why.clone()));
    if out.samples.len() < 6 && out.evaluations % 37 == 1 {
        out.sample(json!({"case": replay, "verdict": verdict, "oracle_reason": exp.why}));
    }
    Ok(())
}

async fn make_world(root: &std::path::PathBuf) -> Result<World, String> {
    set_clock(tick(0));
    let u = Universe::start(root).await?;
    let r2 = make_r2(&u).await?;
    Ok(World { u, r2 })
}

fn replay(path: &str) -> i32 {
    let text = std::fs::read_to_string(path).expect("replay file");
    let v: Value = serde_json::from_str(&text).expect("json");
    let r = &v["replay"];
    let all = cases(Tier::Thorough);
    let c = all
        .iter()
        .find(|c| {
            format!("{:?}", c.kind) == r["kind"].as_str().unwrap()
                && c.role as u64 == r["role"].as_u64().unwrap()
                && format!("{:?}", c.date) == r["date"].as_str().unwrap()
                && format!("{:?}", c.variant) == r["variant"].as_str().unwrap()
                && c.with_honest == r["with_honest"].as_bool().unwrap()
        })
        .expect("case")
        .clone();
    let root = scratch_root();
    let _g = ScratchGuard(root.clone());
    for round in 0..2 {
        let rt = runtime();
        let mut out = Outcome::default();
        let res: Result<(), String> = rt.block_on(async {
            let w = make_world(&root).await?;
            run_case(&w, &c, &mut out, true).await
        });
        println!("replay round {}: {:?}", round, res);
        for v in &out.violations {
            println!("  {} :: {}", v.key, v.what);
        }
    }
    0
}

pub fn run(args: &Args) -> i32 {
    if let Some(p) = &args.replay {
        return replay(p);
    }
    let start = Instant::now();
    let cs = cases(args.tier);
    if let Some((i, n)) = args.shard {
        let root = scratch_root();
        let _g = ScratchGuard(root.clone());
        let mut out = Outcome::default();
        let mine: Vec<&Case> = cs.iter().enumerate().filter(|(k, _)| k % n == i).map(|(_, c)| c).collect();
        for chunk in mine.chunks(40) {
            let rt = runtime();
            let r: Result<(), String> = rt.block_on(async {
                let w = make_world(&root).await?;
                for c in chunk {
                    run_case(&w, c, &mut out, false).await?;
                }
                Ok(())
            });
            drop(rt);
            if let Err(e) = r {
                out.machinery_errors.push(e);
                break;
            }
        }
        emit_shard_outcome(&out);
        return 0;
    }
    let mut out = run_sharded(args, ncpu().min(16));
    out.traces_validated = out.evaluations;
    let meta = CheckMeta {
        prop: "C02",
        level: "model_checking",
        rule: "bounded-exhaustive product kind(12) x author role(5) x date(4) of forged items, plus integrity/JSON/entity variants(10) on node kinds and two-row batches with an honest neighbour; each case = fresh room built by real mutations, forged rows written unchecked into the sender's database, daily log computed by the real pass, victim pulls with the real routine; states = distinct (kind, role, date, variant, verdict); non-trivial = distinct (kind, verdict, oracle reason)".into(),
        bounds: json!({"cases": cs.len(), "kinds": 12, "roles": 5, "dates": 4, "variants": 11}),
        assumptions: vec![
            "rights oracle RO over the room's accepted definition events".into(),
            "a lie a database cannot express (node listed under a room it is not stored in, answer of the wrong type) is not injected in this tier".into(),
            "a reference belongs to its source row: own-rows right on one's own source row, all-rows right on another author's".into(),
            "empty verifying keys are excluded here (they panic, see C14)".into(),
        ],
        exhaustive_claim: true,
    };
    finish(args, &meta, &out, start)
}
