//! C13 - writes are atomic, durable once acknowledged, and leave the log repairable.
//!
//! Fault enumeration on the real service. A CHILD process runs a deterministic workload on a real
//! `GraphDatabaseService` (scratch folder on tmpfs) with ONE fault armed: the k-th hit of one of the
//! six instrumented points of the batch writer, as process death (`abort()`) or as an injected
//! statement error, or - pseudo point `stmt.progress` - a REAL statement failure produced by a
//! progress handler on the writer connection. The child logs every acknowledgement and every
//! reported failure before it continues. A second child then reopens the folder with a normal start
//! and dumps the canonical state. The parent decides atomicity, durability, failure, liveness and
//! repair against fault-free reference runs of the same workload (differential oracle) and against
//! an independent recomputation of the daily log from the stored rows.
//!
//! Enumeration: for every workload, a dry run counts the hits h(p) of every point; then EVERY
//! (p, k <= h(p), mode) is executed. Batches are driven in lockstep through the writer gate, so the
//! composition of every batch, hence the meaning of (p, k), is the same in every run (checked: the
//! batch trace of every faulted run must be a prefix of the dry run's).
use crate::c13_child::*;
use crate::common::*;
use serde_json::{json, Value};
use std::collections::{BTreeMap, BTreeSet, HashMap};
use std::path::{Path, PathBuf};
use std::process::{Command, Stdio};
use std::sync::atomic::{AtomicUsize, Ordering};
use std::sync::Mutex;
use std::time::Instant;

const ABORT_ONLY: [&str; 2] = ["batch.after_commit", "ack.before"];

#[derive(Clone, Debug, PartialEq, Eq, Hash, serde::Serialize, serde::Deserialize)]
pub struct Case {
    pub workload: String,
    pub point: String,
    pub k: u64,
    /// abort | error | interrupt
    pub mode: String,
    /// VM instructions between two callbacks of the progress handler (interrupt mode)
    pub period: u64,
}

#[derive(Clone, Debug, Default)]
pub struct Obs {
    pub exit_code: Option<i32>,
    pub signal: Option<i32>,
    pub started: Vec<usize>,
    pub acked: Vec<usize>,
    pub failed_write: Vec<usize>,
    pub failed_other: Vec<usize>,
    pub errors: Vec<(usize, String)>,
    /// (last request index of the step, data hash, pending marks, log problems)
    pub vis: Vec<(usize, String, u64, Vec<String>)>,
    pub post: Option<Value>,
    pub hits: Option<Value>,
    pub fired: u64,
    pub interrupted: bool,
    /// part of the batch in which the real statement failure landed (item | marks | commit)
    pub place: String,
    pub stuck: Option<String>,
    pub machinery: Option<String>,
    pub ended: bool,
    /// cumulative `batch.item` hits at the start of every batch
    pub trace: Vec<u64>,
    pub groups: Vec<Value>,
    pub setup_hash: String,
    pub barrier_failed: u64,
}

fn parse_log(dir: &Path) -> Obs {
    let mut o = Obs::default();
    let text = std::fs::read_to_string(dir.join("log.jsonl")).unwrap_or_default();
    for line in text.lines() {
        let Ok(v) = serde_json::from_str::<Value>(line) else { continue };
        let i = v.get("i").and_then(|x| x.as_u64()).unwrap_or(0) as usize;
        match v.get("t").and_then(|t| t.as_str()).unwrap_or("") {
            "setup" => o.setup_hash = v["data"].as_str().unwrap_or("").to_string(),
            "req" => o.started.push(i),
            "ack" => o.acked.push(i),
            "fail" => {
                if v["write"].as_bool().unwrap_or(false) {
                    o.failed_write.push(i);
                } else {
                    o.failed_other.push(i);
                }
                o.errors.push((i, v["err"].as_str().unwrap_or("").to_string()));
            }
            "vis" => {
                let lp = v["log_problems"]
                    .as_array()
                    .map(|a| a.iter().filter_map(|x| x.as_str().map(|s| s.to_string())).collect())
                    .unwrap_or_default();
                o.vis.push((
                    i,
                    v["data"].as_str().unwrap_or("").to_string(),
                    v["pending"].as_u64().unwrap_or(0),
                    lp,
                ));
                if v["problems"].as_array().map(|a| !a.is_empty()).unwrap_or(false) {
                    o.machinery = Some(format!("canonical form: {}", v["problems"]));
                }
            }
            "post" => o.post = Some(v.clone()),
            "hits" => {
                o.fired = v["fired"].as_u64().unwrap_or(0);
                o.hits = Some(v["hits"].clone());
            }
            "interrupt" => {
                o.interrupted = true;
                o.place = v["place"].as_str().unwrap_or("").to_string();
            }
            "stuck" => o.stuck = Some(v["what"].as_str().unwrap_or("").to_string()),
            "machinery" => o.machinery = Some(v["err"].as_str().unwrap_or("").to_string()),
            "end" => {
                o.ended = true;
                o.failed_write.sort();
                o.acked.sort();
            }
            "batch" => o.trace.push(v["items_before"].as_u64().unwrap_or(0)),
            "group" => o.groups.push(v.clone()),
            "barrier_failed" => o.barrier_failed += 1,
            _ => {}
        }
    }
    o
}

fn exe() -> PathBuf {
    std::env::current_exe().expect("current exe")
}

fn run_child(case_args: &[String], dir: &Path) -> (Option<i32>, Option<i32>) {
    use std::os::unix::process::ExitStatusExt;
    let _ = std::fs::create_dir_all(dir);
    let err = std::fs::File::create(dir.join("stderr.txt")).ok();
    let mut cmd = Command::new(exe());
    cmd.arg("C13").args(case_args).stdout(Stdio::null()).stdin(Stdio::null());
    match err {
        Some(f) => {
            cmd.stderr(Stdio::from(f));
        }
        None => {
            cmd.stderr(Stdio::null());
        }
    }
    // no core files for the deliberate aborts
    unsafe_no_core(&mut cmd);
    for attempt in 0..20 {
        match cmd.status() {
            Ok(st) => return (st.code(), st.signal()),
            Err(_) => std::thread::sleep(std::time::Duration::from_millis(50 * (attempt + 1))),
        }
    }
    (Some(-1), None)
}

fn unsafe_no_core(_cmd: &mut Command) {
    // RLIMIT_CORE is inherited; the harness does not depend on libc, so core files are avoided by
    // running the children in the scratch folder (tmpfs, removed at the end) instead
    _cmd.current_dir(std::env::temp_dir());
}

#[derive(Clone, Debug)]
pub struct RefRun {
    /// S_0 (after the fixture), S_{i+1} after request i, last = after the trailing request
    pub states: Vec<Canon>,
    pub obs: Obs,
}

fn skip_arg(skip: &[usize]) -> String {
    format!(
        "skip={}",
        skip.iter().map(|i| i.to_string()).collect::<Vec<_>>().join(",")
    )
}

fn load_states(dir: &Path) -> Result<Vec<Canon>, String> {
    let text = std::fs::read_to_string(dir.join("states.json")).map_err(|e| e.to_string())?;
    let v: Value = serde_json::from_str(&text).map_err(|e| e.to_string())?;
    serde_json::from_value(v["states"].clone()).map_err(|e| e.to_string())
}

fn run_ref(root: &Path, w: &str, skip: &[usize], tag: &str) -> Result<RefRun, String> {
    let dir = root.join(format!("ref-{}-{}", w, tag));
    let _ = std::fs::remove_dir_all(&dir);
    let args = vec![
        "--child".to_string(),
        w.to_string(),
        "-".to_string(),
        "0".to_string(),
        "ref".to_string(),
        dir.to_string_lossy().to_string(),
        skip_arg(skip),
    ];
    let (code, sig) = run_child(&args, &dir);
    let obs = parse_log(&dir);
    if code != Some(0) || !obs.ended {
        return Err(format!(
            "reference run {} skip {:?} failed: code {:?} signal {:?} {:?} {:?}",
            w, skip, code, sig, obs.machinery, obs.stuck
        ));
    }
    let states = load_states(&dir)?;
    let _ = std::fs::remove_dir_all(&dir);
    Ok(RefRun { states, obs })
}

pub struct Dry {
    pub hits: BTreeMap<String, u64>,
    pub obs: Obs,
    pub final_state: Canon,
    pub n_requests: usize,
}

fn run_dry(root: &Path, w: &str, period: u64, tag: &str) -> Result<Dry, String> {
    let dir = root.join(format!("dry-{}-{}", w, tag));
    let _ = std::fs::remove_dir_all(&dir);
    let args = vec![
        "--child".to_string(),
        w.to_string(),
        "-".to_string(),
        "0".to_string(),
        "dry".to_string(),
        dir.to_string_lossy().to_string(),
        format!("period={}", period),
    ];
    let (code, sig) = run_child(&args, &dir);
    let obs = parse_log(&dir);
    if code != Some(0) || !obs.ended {
        return Err(format!(
            "dry run {} failed: code {:?} signal {:?} {:?} {:?}",
            w, code, sig, obs.machinery, obs.stuck
        ));
    }
    let mut hits = BTreeMap::new();
    if let Some(h) = obs.hits.as_ref().and_then(|h| h.as_object()) {
        for (k, v) in h {
            hits.insert(k.clone(), v.as_u64().unwrap_or(0));
        }
    }
    let states = load_states(&dir)?;
    let final_state = states.last().cloned().ok_or("dry run without state")?;
    let n = obs.started.len();
    let _ = std::fs::remove_dir_all(&dir);
    Ok(Dry { hits, obs, final_state, n_requests: n })
}

#[derive(Clone, Debug, Default)]
pub struct Verify {
    pub start_ok: bool,
    pub err: String,
    pub canon: Canon,
    pub scratch_diff: Vec<String>,
    pub scratch_history_only: u64,
    pub serves: bool,
    pub serve_err: String,
}

fn run_verify(dir: &Path) -> Verify {
    let args = vec!["--verify".to_string(), dir.to_string_lossy().to_string()];
    let mut v = Value::Null;
    let mut died = String::new();
    // a verifier that dies without a verdict (thread creation refused on a loaded machine) is run
    // again: reopening is idempotent. A reproducible death is reported as a failed restart.
    for _ in 0..3 {
        let _ = std::fs::remove_file(dir.join("verify.json"));
        let (code, sig) = run_child(&args, dir);
        let text = std::fs::read_to_string(dir.join("verify.json")).unwrap_or_default();
        match serde_json::from_str::<Value>(&text) {
            Ok(x) => {
                v = x;
                break;
            }
            Err(_) => {
                let stderr = std::fs::read_to_string(dir.join("stderr.txt")).unwrap_or_default();
                died = format!(
                    "verifier died: code {:?} signal {:?} {}",
                    code,
                    sig,
                    stderr.lines().take(3).collect::<Vec<_>>().join(" / ")
                );
            }
        }
    }
    if v.is_null() {
        return Verify { start_ok: false, err: died, ..Default::default() };
    }
    if !v["start_ok"].as_bool().unwrap_or(false) {
        return Verify {
            start_ok: false,
            err: v["err"].as_str().unwrap_or("").to_string(),
            ..Default::default()
        };
    }
    Verify {
        start_ok: true,
        err: String::new(),
        canon: serde_json::from_value(v["canon"].clone()).unwrap_or_default(),
        scratch_diff: v["scratch_diff"]
            .as_array()
            .map(|a| a.iter().filter_map(|x| x.as_str().map(|s| s.to_string())).collect())
            .unwrap_or_default(),
        scratch_history_only: v["scratch_history_only"].as_u64().unwrap_or(0),
        serves: v["serves"].as_bool().unwrap_or(false),
        serve_err: v["serve_err"].as_str().unwrap_or("").to_string(),
    }
}

#[derive(Clone, Debug)]
pub struct CaseRun {
    pub case: Case,
    pub obs: Obs,
    pub verify: Verify,
}

fn run_case(root: &Path, case: &Case, tag: &str) -> CaseRun {
    let dir = root.join(format!(
        "case-{}-{}-{}-{}-{}",
        case.workload,
        case.point.replace('.', "_"),
        case.k,
        case.mode,
        tag
    ));
    let _ = std::fs::remove_dir_all(&dir);
    let args = vec![
        "--child".to_string(),
        case.workload.clone(),
        case.point.clone(),
        case.k.to_string(),
        case.mode.clone(),
        dir.to_string_lossy().to_string(),
        format!("period={}", case.period),
    ];
    let (mut code, mut sig) = run_child(&args, &dir);
    let mut obs = parse_log(&dir);
    // a child that dies of anything but the armed abort (Rust panic = 101, spawn failure, harness
    // error = 3) is run again from scratch; only a reproducible death is judged
    for _ in 0..2 {
        let suspicious = matches!(code, Some(101) | Some(-1) | Some(3)) || (sig.is_some() && sig != Some(6));
        if !suspicious {
            break;
        }
        let _ = std::fs::remove_dir_all(&dir);
        let r = run_child(&args, &dir);
        code = r.0;
        sig = r.1;
        obs = parse_log(&dir);
    }
    obs.exit_code = code;
    obs.signal = sig;
    let verify = run_verify(&dir);
    let _ = std::fs::remove_dir_all(&dir);
    CaseRun { case: case.clone(), obs, verify }
}

fn data_diff(a: &Canon, b: &Canon) -> String {
    let mut parts = vec![];
    let names: BTreeSet<&String> = a.data.keys().chain(b.data.keys()).collect();
    let empty: Vec<String> = vec![];
    for n in names {
        let x = a.data.get(n).unwrap_or(&empty);
        let y = b.data.get(n).unwrap_or(&empty);
        if x != y {
            let sx: BTreeSet<&String> = x.iter().collect();
            let sy: BTreeSet<&String> = y.iter().collect();
            parts.push(format!(
                "{}: {} rows only in the first, {} only in the second",
                n,
                sx.difference(&sy).count(),
                sy.difference(&sx).count()
            ));
        }
    }
    parts.join("; ")
}

fn tables_differing(a: &Canon, b: &Canon) -> Vec<String> {
    let names: BTreeSet<&String> = a.data.keys().chain(b.data.keys()).collect();
    names
        .into_iter()
        .filter(|n| a.data.get(*n) != b.data.get(*n))
        .cloned()
        .collect()
}

#[derive(Clone, Debug, Default)]
pub struct Verdict {
    /// (clause, detail)
    pub violations: Vec<(String, String)>,
    pub machinery: Vec<String>,
    /// short outcome label for the histogram
    pub outcome: String,
    /// set of write-failed requests (error modes): the reference run needed
    pub matched_prefix: Option<usize>,
}

fn group_of(groups: &[Vec<usize>], i: usize) -> usize {
    groups.iter().position(|g| g.contains(&i)).unwrap_or(usize::MAX)
}

fn repair_clauses(v: &Verify, reference: Option<&Canon>, out: &mut Verdict) {
    let c = &v.canon;
    // an inconsistency that the fault-free run shows at the same prefix is not caused by the fault:
    // it is reported once, from the reference run, under its own key
    let baseline: BTreeSet<&String> = reference.map(|r| r.log_problems.iter().collect()).unwrap_or_default();
    let own: Vec<&String> = c.log_problems.iter().filter(|p| !baseline.contains(p)).collect();
    let inherited = !c.log_problems.is_empty() && own.is_empty();
    if c.pending_marks > 0 {
        out.violations.push((
            "repair:marks-pending-after-restart".into(),
            format!("{} rows of _daily_log still wait for a recompute after the start-up pass", c.pending_marks),
        ));
    }
    if !own.is_empty() {
        out.violations.push((
            "repair:log-differs-from-stored-rows".into(),
            format!("after restart: {}", own.iter().map(|s| s.as_str()).collect::<Vec<_>>().join(" | ")),
        ));
    }
    if !v.scratch_diff.is_empty() && !inherited {
        out.violations.push((
            "repair:log-differs-from-recomputation".into(),
            format!("after restart, against a from-scratch pass: {}", v.scratch_diff.join(" | ")),
        ));
    }
    if let Some(r) = reference {
        if r.daily_log != c.daily_log && c.log_problems.is_empty() && c.pending_marks == 0 && r.pending_marks == 0 {
            let a: BTreeSet<&String> = r.daily_log.iter().collect();
            let b: BTreeSet<&String> = c.daily_log.iter().collect();
            out.violations.push((
                "repair:log-differs-from-fault-free-run".into(),
                format!(
                    "fault-free only: {:?}; recovered only: {:?}",
                    a.difference(&b).take(3).collect::<Vec<_>>(),
                    b.difference(&a).take(3).collect::<Vec<_>>()
                ),
            ));
        }
    }
    if !v.serves {
        out.violations.push((
            "restart:instance-does-not-serve".into(),
            format!("after restart a mutation or a query failed: {}", v.serve_err),
        ));
    }
}

/// process death: state == some prefix of whole requests that contains every acknowledged one
fn judge_abort(run: &CaseRun, reference: &RefRun, dry: &Dry) -> Verdict {
    let mut out = Verdict::default();
    let o = &run.obs;
    if let Some(m) = &o.machinery {
        out.machinery.push(format!("child: {}", m));
        return out;
    }
    if o.signal.is_none() {
        out.machinery.push(format!(
            "fault {} k={} did not kill the child (exit {:?}, fired {}): the run differs from the dry run",
            run.case.point, run.case.k, o.exit_code, o.fired
        ));
        return out;
    }
    // the batches before the death are those of the dry run
    if o.trace.len() > dry.obs.trace.len() || o.trace[..] != dry.obs.trace[..o.trace.len()] {
        out.machinery.push(format!(
            "batch trace {:?} is not a prefix of the dry run's {:?}",
            o.trace, dry.obs.trace
        ));
        return out;
    }
    if !run.verify.start_ok {
        out.violations.push((
            "restart:start-fails".into(),
            format!("the folder cannot be reopened: {}", run.verify.err),
        ));
        out.outcome = "abort:restart-fails".into();
        return out;
    }
    let r = &run.verify.canon;
    if !r.problems.is_empty() {
        out.machinery.push(format!("canonical form after restart: {:?}", r.problems));
        return out;
    }
    // what the instance showed to queries before it died
    for (i, h, _pending, _lp) in &o.vis {
        if *h != data_hash(&reference.states[i + 1]) {
            out.violations.push((
                "visibility".into(),
                format!("after request #{} (before the death) the running instance shows a state that is not the fault-free one", i),
            ));
            break;
        }
    }
    let lo = o.acked.iter().max().map(|m| m + 1).unwrap_or(0);
    let hi = o.started.iter().max().map(|m| m + 1).unwrap_or(0);
    let n = reference.states.len() - 1; // index of the state after the trailing request
    let matches: Vec<usize> = (0..n).filter(|j| reference.states[*j].data == r.data).collect();
    let good = matches.iter().rev().find(|j| **j >= lo && **j <= hi).copied();
    match good {
        Some(j) => {
            out.matched_prefix = Some(j);
            out.outcome = format!(
                "abort:prefix{}",
                if j == hi && hi > lo { "+unacked-applied" } else if hi > lo { "+unacked-absent" } else { "" }
            );
            repair_clauses(&run.verify, Some(&reference.states[j]), &mut out);
        }
        None => {
            if let Some(j) = matches.iter().rev().find(|j| **j < lo) {
                out.matched_prefix = Some(*j);
                out.violations.push((
                    "durability".into(),
                    format!(
                        "requests up to #{} were acknowledged before the death but the reopened state is the one after {} requests",
                        lo - 1,
                        j
                    ),
                ));
                out.outcome = "abort:acknowledged-lost".into();
            } else if let Some(j) = matches.iter().find(|j| **j > hi) {
                out.violations.push((
                    "atomicity".into(),
                    format!("state after {} requests although only {} were issued", j, hi),
                ));
                out.outcome = "abort:future-state".into();
            } else {
                let t = tables_differing(&reference.states[lo.min(n)], r);
                out.violations.push((
                    format!("atomicity:{}", t.join("+")),
                    format!(
                        "the reopened state is not the state after any prefix of whole requests (acknowledged {:?}, issued {:?}); against the state after {} requests: {}; against the state after {}: {}",
                        o.acked,
                        o.started,
                        lo,
                        data_diff(&reference.states[lo.min(n)], r),
                        hi,
                        data_diff(&reference.states[hi.min(n)], r)
                    ),
                ));
                out.outcome = "abort:partial".into();
            }
            repair_clauses(&run.verify, None, &mut out);
        }
    }
    out
}

/// statement failure: the failed requests leave nothing, everything else is as in a fault-free run
/// that never issued them, the instance keeps serving
fn judge_error(run: &CaseRun, reference: &RefRun, groups: &[Vec<usize>]) -> Verdict {
    let mut out = Verdict::default();
    let o = &run.obs;
    if let Some(m) = &o.machinery {
        out.machinery.push(format!("child: {}", m));
        return out;
    }
    if o.signal.is_some() || (o.exit_code != Some(0) && o.stuck.is_none()) {
        out.violations.push((
            "liveness:process-died".into(),
            format!(
                "a failing statement killed the process (exit {:?} signal {:?})",
                o.exit_code, o.signal
            ),
        ));
        out.outcome = "error:died".into();
        return out;
    }
    if let Some(s) = &o.stuck {
        out.violations.push((
            "liveness:hang".into(),
            format!("after the failing statement the pipeline stopped: {}", s),
        ));
        out.outcome = "error:hang".into();
        return out;
    }
    let fired = if run.case.mode == "error" { o.fired == 1 } else { o.interrupted };
    if run.case.mode == "interrupt" && !fired && o.ended {
        // the callback count varies by a few units from run to run (HashMap order inside discret):
        // the last indexes of the dry run may not exist in this run
        out.outcome = "interrupt:index-beyond-this-run".into();
        return out;
    }
    if !fired || !o.ended {
        out.machinery.push(format!(
            "fault {} k={} mode {} not fired exactly once (fired {}, interrupted {}, ended {})",
            run.case.point, run.case.k, run.case.mode, o.fired, o.interrupted, o.ended
        ));
        return out;
    }
    let n_req = reference.states.len() - 2;
    // liveness: at most the requests of ONE transaction fail, the request after the workload succeeds
    let fg: BTreeSet<usize> = o.failed_write.iter().map(|i| group_of(groups, *i)).collect();
    let post_ok = o
        .post
        .as_ref()
        .map(|p| p["ok"].as_bool().unwrap_or(false) && p["query_ok"].as_bool().unwrap_or(false))
        .unwrap_or(false);
    if fg.len() > 1 || !post_ok {
        let last_err = o.errors.last().map(|e| e.1.clone()).unwrap_or_default();
        out.violations.push((
            "liveness:later-requests-fail".into(),
            format!(
                "one statement failure, then requests {:?} are reported failed ({} transactions) and the request after the workload {}: {}",
                o.failed_write,
                fg.len(),
                if post_ok { "succeeds" } else { "fails" },
                o.post
                    .as_ref()
                    .and_then(|p| p["err"].as_str())
                    .filter(|s| !s.is_empty())
                    .map(|s| s.to_string())
                    .unwrap_or(last_err)
            ),
        ));
    }
    // same verdict as the fault-free run for everything that was not hit
    for i in 0..n_req {
        if o.failed_write.contains(&i) {
            continue;
        }
        let here = if o.acked.contains(&i) {
            "ack"
        } else if o.failed_other.contains(&i) {
            "refused"
        } else {
            "none"
        };
        let there = if reference.obs.acked.contains(&i) {
            "ack"
        } else if reference.obs.failed_other.contains(&i) {
            "refused"
        } else {
            "none"
        };
        if here != there {
            out.violations.push((
                "outcome-differs".into(),
                format!("request #{}: {} here, {} in the fault-free run without the failed requests", i, here, there),
            ));
        }
    }
    // what the running instance shows after every step
    for (i, h, _pending, _lp) in &o.vis {
        let want = data_hash(&reference.states[i + 1]);
        if *h != want {
            let clause = if o.failed_write.iter().any(|f| f <= i) { "failure:effect-visible-live" } else { "visibility" };
            out.violations.push((
                clause.into(),
                format!("after request #{} the running instance shows a state that is not the fault-free one", i),
            ));
            break;
        }
    }
    if let Some(p) = &o.post {
        if post_ok && p["data"].as_str().unwrap_or("") != data_hash(&reference.states[n_req + 1]) {
            out.violations.push((
                "failure:effect-visible-live".into(),
                "after the trailing request the running instance shows a state that is not the fault-free one".into(),
            ));
        }
        // problems that the fault-free run shows as well are reported from the reference run
        let baseline: BTreeSet<String> = reference.states[n_req + 1].log_problems.iter().cloned().collect();
        let own_problems = p["log_problems"]
            .as_array()
            .map(|a| a.iter().filter_map(|x| x.as_str()).filter(|x| !baseline.contains(*x)).count())
            .unwrap_or(0);
        if post_ok && (p["pending"].as_u64().unwrap_or(0) > 0 || own_problems > 0) {
            out.violations.push((
                "repair:log-stale-in-running-instance".into(),
                format!(
                    "after the next request and its recompute pass: pending {}, {}",
                    p["pending"], p["log_problems"]
                ),
            ));
        }
    }
    // after a restart
    if !run.verify.start_ok {
        out.violations.push((
            "restart:start-fails".into(),
            format!("the folder cannot be reopened: {}", run.verify.err),
        ));
        out.outcome = "error:restart-fails".into();
        return out;
    }
    let r = &run.verify.canon;
    if !r.problems.is_empty() {
        out.machinery.push(format!("canonical form after restart: {:?}", r.problems));
        return out;
    }
    // a trailing request that failed (already a liveness violation) is not in the expected state
    let want = if post_ok { &reference.states[n_req + 1] } else { &reference.states[n_req] };
    if want.data != r.data {
        let t = tables_differing(want, r);
        let clause = if o.failed_write.is_empty() { "atomicity" } else { "failure:effect-after-restart" };
        out.violations.push((
            format!("{}:{}", clause, t.join("+")),
            format!(
                "requests {:?} were reported failed; the reopened state differs from the fault-free run without them: {}",
                o.failed_write,
                data_diff(want, r)
            ),
        ));
        repair_clauses(&run.verify, None, &mut out);
    } else {
        repair_clauses(&run.verify, Some(want), &mut out);
    }
    out.outcome = format!(
        "{}:{}",
        run.case.mode,
        if o.failed_write.is_empty() {
            "no-request-failed".to_string()
        } else {
            format!("{}-failed", o.failed_write.len())
        }
    );
    out
}

fn cases_for(w: &str, dry: &Dry, period: u64) -> Vec<Case> {
    let mut cases = vec![];
    // simplest first: points in pipeline order, k ascending, death before statement failure
    for p in POINTS {
        let h = dry.hits.get(p).copied().unwrap_or(0);
        for k in 1..=h {
            cases.push(Case { workload: w.into(), point: p.into(), k, mode: "abort".into(), period });
            if !ABORT_ONLY.contains(&p) {
                cases.push(Case { workload: w.into(), point: p.into(), k, mode: "error".into(), period });
            }
        }
    }
    let h = dry.hits.get(COMMIT_POINT).copied().unwrap_or(0);
    for k in 1..=h {
        cases.push(Case {
            workload: w.into(),
            point: COMMIT_POINT.into(),
            k,
            mode: "commitfail".into(),
            period,
        });
    }
    let h = dry.hits.get(PROGRESS_POINT).copied().unwrap_or(0);
    for k in 1..=h {
        cases.push(Case {
            workload: w.into(),
            point: PROGRESS_POINT.into(),
            k,
            mode: "interrupt".into(),
            period,
        });
    }
    cases
}

fn parallel<T: Sync, R: Send, F: Fn(&T) -> R + Sync>(items: &[T], workers: usize, f: F) -> Vec<R> {
    let next = AtomicUsize::new(0);
    let results: Mutex<Vec<Option<R>>> = Mutex::new((0..items.len()).map(|_| None).collect());
    std::thread::scope(|s| {
        for _ in 0..workers.min(items.len()).max(1) {
            s.spawn(|| loop {
                let i = next.fetch_add(1, Ordering::SeqCst);
                if i >= items.len() {
                    break;
                }
                let r = f(&items[i]);
                results.lock().unwrap()[i] = Some(r);
            });
        }
    });
    results.into_inner().unwrap().into_iter().map(|r| r.unwrap()).collect()
}

fn groups_of(w: &str, n: usize) -> Vec<Vec<usize>> {
    // the grouping is part of the workload definition (c13_child::build); mirrored here because the
    // parent never starts a database
    match w {
        "W5" => vec![vec![0], vec![1, 2], vec![3, 4, 5, 6, 7]],
        _ => (0..n).map(|i| vec![i]).collect(),
    }
}

fn replay_json(c: &Case) -> Value {
    json!({"workload": c.workload, "point": c.point, "k": c.k, "mode": c.mode, "period": c.period,
           "how": "mc C13 --replay <this file>; or by hand: mc C13 --child <workload> <point> <k> <mode> <dir> period=<period> then mc C13 --verify <dir>"})
}

struct Plan {
    workloads: Vec<&'static str>,
    period: u64,
}

fn plan(tier: Tier) -> Plan {
    match tier {
        Tier::Quick => Plan { workloads: vec!["W1", "W2", "W3", "W5"], period: 100 },
        Tier::Thorough => Plan { workloads: vec!["W1", "W2", "W3", "W4", "W5", "W6"], period: 25 },
    }
}

pub fn run(args: &Args) -> i32 {
    match args.extra.first().map(|s| s.as_str()) {
        Some("--child") => return child_main(&args.extra),
        Some("--verify") => return verify_main(&args.extra),
        _ => {}
    }
    if let Some(f) = &args.replay {
        return replay(f);
    }
    let start = Instant::now();
    let root = scratch_root();
    let _guard = ScratchGuard(root.clone());
    let _ = std::fs::create_dir_all(&root);
    let mut pl = plan(args.tier);
    // development aid: `only=W2,W5` restricts the workloads (the evidence then says so)
    for e in &args.extra {
        if let Some(list) = e.strip_prefix("only=") {
            let keep: Vec<&str> = list.split(',').collect();
            pl.workloads.retain(|w| keep.contains(w));
        }
    }
    let workers = ncpu().max(4);
    let mut out = Outcome::default();

    // 1. dry runs (twice: the hit counts must be reproducible) and sequential reference runs
    let prep: Vec<(String, Result<(Dry, Dry, RefRun), String>)> = parallel(&pl.workloads, workers, |w| {
        let r = (|| {
            let d1 = run_dry(&root, w, pl.period, "a")?;
            let d2 = run_dry(&root, w, pl.period, "b")?;
            let rf = run_ref(&root, w, &[], "none")?;
            Ok((d1, d2, rf))
        })();
        (w.to_string(), r)
    });
    let mut drys: HashMap<String, Dry> = HashMap::new();
    let mut refs: HashMap<(String, Vec<usize>), RefRun> = HashMap::new();
    let mut all_cases: Vec<Case> = vec![];
    let mut bounds_hits = serde_json::Map::new();
    for (w, r) in prep {
        match r {
            Err(e) => out.machinery_errors.push(e),
            Ok((d1, d2, rf)) => {
                // the number of progress callbacks is not a function of the workload: discret inserts
                // nested rows in HashMap order, so the VM instruction count varies by a few units
                let mut d1 = d1;
                let (mut h1, mut h2) = (d1.hits.clone(), d2.hits.clone());
                let p1 = h1.remove(PROGRESS_POINT).unwrap_or(0);
                let p2 = h2.remove(PROGRESS_POINT).unwrap_or(0);
                d1.hits.insert(PROGRESS_POINT.to_string(), p1.max(p2));
                if h1 != h2 || d1.obs.trace != d2.obs.trace {
                    out.machinery_errors.push(format!(
                        "{}: two dry runs disagree: {:?} / {:?}",
                        w, d1.hits, d2.hits
                    ));
                }
                // real batching and one-request-per-batch end in the same data: the sequential
                // states are legitimate references for the batched runs
                let last = rf.states.last().unwrap();
                if last.data != d1.final_state.data {
                    out.machinery_errors.push(format!(
                        "{}: batched and sequential fault-free runs end differently: {}",
                        w,
                        data_diff(last, &d1.final_state)
                    ));
                } else {
                    out.traces_validated += 1;
                }
                // the repair clause without any fault: at quiescence after every request the log must
                // describe the stored rows (a mark missing from a transaction is never repaired)
                for (j, s) in rf.states.iter().enumerate() {
                    out.evaluations += 1;
                    if !s.log_problems.is_empty() {
                        out.violation(
                            format!("none|fault-free|{}|repair:log-differs-from-stored-rows", class_of(&w)),
                            format!(
                                "workload {} ({}), no fault, at quiescence after {} requests (rows of the log that are not waiting for a recompute): {}",
                                w,
                                class_of(&w),
                                j,
                                s.log_problems.join(" | ")
                            ),
                            json!({"workload": w, "mode": "ref", "prefix": j, "point": "none", "k": 0, "period": pl.period}),
                        );
                    } else {
                        out.count("fault-free:log-consistent");
                    }
                }
                let cs = cases_for(&w, &d1, pl.period);
                bounds_hits.insert(
                    w.clone(),
                    json!({"class": class_of(&w), "requests": d1.n_requests, "batches": d1.obs.trace.len(),
                           "hits": d1.hits, "cases": cs.len()}),
                );
                all_cases.extend(cs);
                drys.insert(w.clone(), d1);
                refs.insert((w.clone(), vec![]), rf);
            }
        }
    }
    if !out.machinery_errors.is_empty() {
        let meta = meta(args.tier, &pl, json!({}));
        return finish(args, &meta, &out, start);
    }

    // 2. every (workload, point, k, mode)
    let runs: Vec<CaseRun> = parallel(&all_cases, workers, |c| run_case(&root, c, "x"));

    // 3. reference runs without the requests that were reported failed
    let mut needed: BTreeSet<(String, Vec<usize>)> = BTreeSet::new();
    for r in &runs {
        if r.case.mode != "abort" {
            let mut f = r.obs.failed_write.clone();
            f.sort();
            f.dedup();
            if !f.is_empty() {
                needed.insert((r.case.workload.clone(), f));
            }
        }
    }
    let needed: Vec<(String, Vec<usize>)> = needed.into_iter().filter(|k| !refs.contains_key(k)).collect();
    let extra = parallel(&needed, workers, |(w, f)| {
        let tag = format!("f{}", f.iter().map(|i| i.to_string()).collect::<Vec<_>>().join("_"));
        run_ref(&root, w, f, &tag)
    });
    for (k, r) in needed.into_iter().zip(extra) {
        match r {
            Ok(rf) => {
                refs.insert(k, rf);
            }
            Err(e) => out.machinery_errors.push(e),
        }
    }

    // 4. verdicts
    let mut interrupt_cases = 0u64;
    for r in &runs {
        // the number of progress callbacks varies by a few units from run to run (see `interrupt`):
        // those cases are judged like the others but counted apart, so that the printed counts are
        // the same on every run
        if r.case.mode == "interrupt" {
            interrupt_cases += 1;
        } else {
            out.evaluations += 1;
            out.transitions += r.obs.trace.len() as u64 + r.obs.started.len() as u64;
        }
        let dry = &drys[&r.case.workload];
        let groups = groups_of(&r.case.workload, dry.n_requests);
        let v = if r.case.mode == "abort" {
            judge_abort(r, &refs[&(r.case.workload.clone(), vec![])], dry)
        } else {
            let mut f = r.obs.failed_write.clone();
            f.sort();
            f.dedup();
            match refs.get(&(r.case.workload.clone(), f)) {
                Some(rf) => judge_error(r, rf, &groups),
                None => Verdict { machinery: vec!["reference run missing".into()], ..Default::default() },
            }
        };
        for m in &v.machinery {
            out.machinery_errors.push(format!("{:?}: {}", r.case, m));
        }
        let class = class_of(&r.case.workload);
        let label = if v.violations.is_empty() {
            v.outcome.clone()
        } else {
            format!("{}:VIOLATED", r.case.mode)
        };
        out.count(&label);
        if r.verify.start_ok {
            // distinct recovered states (the place of the k-th progress callback is not a function of
            // the workload, see `interrupt`: those runs only feed the histogram)
            let h = hash64(&(&r.case.workload, &r.verify.canon.data));
            if r.case.mode != "interrupt" {
                out.state(&h);
                out.nontrivial(&(h, &v.outcome));
            }
            if r.verify.scratch_history_only > 0 {
                out.count("note:history_hash-differs-from-scratch-pass(C09)");
            }
        }
        for (clause, detail) in &v.violations {
            let key = format!("{}|{}|{}|{}", r.case.point, r.case.mode, class, clause);
            let what = format!(
                "{} k={} mode={}{} workload {} ({}): {}",
                r.case.point,
                r.case.k,
                r.case.mode,
                if r.obs.place.is_empty() { String::new() } else { format!(" (failing statement in: {})", r.obs.place) },
                r.case.workload,
                class,
                detail
            );
            out.violation(key, what, replay_json(&r.case));
        }
    }
    // samples: first, last and three evenly spaced cases
    if !runs.is_empty() {
        let n = runs.len();
        for idx in [0, n / 4, n / 2, 3 * n / 4, n - 1] {
            let r = &runs[idx];
            out.sample(json!({
                "case": replay_json(&r.case),
                "acknowledged": r.obs.acked, "reported_failed": r.obs.failed_write, "refused": r.obs.failed_other,
                "died_with_signal": r.obs.signal, "batches_before_end": r.obs.trace.len(),
                "restart_ok": r.verify.start_ok, "pending_marks_after_restart": r.verify.canon.pending_marks,
            }));
        }
    }
    out.notes.push(format!(
        "{} more cases in mode interrupt (real statement failure at the k-th progress callback) are judged but not counted in evaluations/states/transitions: their number varies by a few units from run to run because discret walks HashMaps while it writes",
        interrupt_cases
    ));
    out.notes.push(
        "durability is decided against process death on tmpfs: SQLite's WAL with synchronous=NORMAL is trusted for power loss, which no run produces".into(),
    );
    out.notes.push(
        "history_hash is excluded from the repair clause: it already differs from a from-scratch pass in fault-free runs (C09's finding), see the note: counter".into(),
    );
    let meta = meta(args.tier, &pl, Value::Object(bounds_hits));
    finish(args, &meta, &out, start)
}

fn meta(tier: Tier, pl: &Plan, per_workload: Value) -> CheckMeta {
    CheckMeta {
        prop: "C13",
        level: "fault_enumeration",
        rule: "one case = (workload, fault point, k-th hit, mode) executed in a child process and reopened by a second one; evaluations = cases; states = distinct canonical recovered states; a case is non trivial when its (recovered state, outcome class) pair was not seen before".into(),
        bounds: json!({
            "tier": tier.name(),
            "workloads": pl.workloads,
            "fault_points": POINTS,
            "pseudo_points": [{"name": PROGRESS_POINT, "vm_instructions_between_callbacks": pl.period}, {"name": COMMIT_POINT}],
            "modes": {"abort": "every point", "error": "every point but batch.after_commit and ack.before (their result is ignored by the writer)", "interrupt": "every callback of the progress handler", "commitfail": "every COMMIT (commit hook veto)"},
            "k": "every hit counted by the dry run of the workload (all batches: requests, recompute passes, generic writes)",
            "requests_per_transaction": [1, 2, 5],
            "per_workload": per_workload,
        }),
        assumptions: vec![
            "process death only: the folder is on tmpfs, so fsync ordering / torn pages (power loss) are not exercised; SQLite WAL recovery is trusted".into(),
            "one fault per run".into(),
            "the fault hooks of the `verif` feature are at the six named places of process_batch_write / the writer loop; failures of statements inside one item are produced by the progress handler (SQLITE_INTERRUPT), other error codes (SQLITE_FULL, SQLITE_IOERR) inside an item are not produced".into(),
            "rows are compared in an id-free canonical form (identifier -> (entity, creation date, content)); workloads give every row a distinct content".into(),
            "history_hash is outside the repair clause (C09)".into(),
        ],
        exhaustive_claim: true,
    }
}

fn replay(file: &str) -> i32 {
    let text = match std::fs::read_to_string(file) {
        Ok(t) => t,
        Err(e) => {
            eprintln!("cannot read {}: {}", file, e);
            return 2;
        }
    };
    let v: Value = serde_json::from_str(&text).unwrap_or(Value::Null);
    let rp = if v.get("replay").is_some() { v["replay"].clone() } else { v.clone() };
    let case = Case {
        workload: rp["workload"].as_str().unwrap_or("W1").to_string(),
        point: rp["point"].as_str().unwrap_or("batch.begin").to_string(),
        k: rp["k"].as_u64().unwrap_or(1),
        mode: rp["mode"].as_str().unwrap_or("abort").to_string(),
        period: rp["period"].as_u64().unwrap_or(100),
    };
    let root = scratch_root();
    let _guard = ScratchGuard(root.clone());
    let _ = std::fs::create_dir_all(&root);
    if case.mode == "ref" {
        let mut seen = vec![];
        for round in 0..2 {
            match run_ref(&root, &case.workload, &[], &format!("r{}", round)) {
                Ok(rf) => {
                    println!("--- fault-free run {} of workload {}", round + 1, case.workload);
                    let mut sig = vec![];
                    for (j, s) in rf.states.iter().enumerate() {
                        println!("after {} requests: pending marks {}, log problems {:?}", j, s.pending_marks, s.log_problems);
                        sig.push(s.log_problems.clone());
                    }
                    seen.push(sig);
                }
                Err(e) => {
                    eprintln!("machinery: {}", e);
                    return 2;
                }
            }
        }
        if seen[0] != seen[1] {
            eprintln!("machinery error: the two replays diverge");
            return 2;
        }
        return 0;
    }
    let dry = match run_dry(&root, &case.workload, case.period, "r") {
        Ok(d) => d,
        Err(e) => {
            eprintln!("machinery: {}", e);
            return 2;
        }
    };
    let groups = groups_of(&case.workload, dry.n_requests);
    let mut seen: Vec<String> = vec![];
    for round in 0..2 {
        let r = run_case(&root, &case, &format!("r{}", round));
        let mut f = r.obs.failed_write.clone();
        f.sort();
        f.dedup();
        let skip = if case.mode == "abort" { vec![] } else { f };
        let rf = match run_ref(&root, &case.workload, &skip, &format!("r{}", round)) {
            Ok(r) => r,
            Err(e) => {
                eprintln!("machinery: {}", e);
                return 2;
            }
        };
        let v = if case.mode == "abort" { judge_abort(&r, &rf, &dry) } else { judge_error(&r, &rf, &groups) };
        println!("--- replay {} of {:?}", round + 1, case);
        println!(
            "child: exit {:?} signal {:?}; issued {:?}; acknowledged {:?}; reported failed {:?}; refused {:?}; batches {}",
            r.obs.exit_code, r.obs.signal, r.obs.started, r.obs.acked, r.obs.failed_write, r.obs.failed_other, r.obs.trace.len()
        );
        for (i, e) in &r.obs.errors {
            println!("  request #{} failed with: {}", i, e);
        }
        if let Some(p) = &r.obs.post {
            println!("  request after the workload: ok={} {}", p["ok"], p["err"]);
        }
        println!(
            "restart: ok={} {} pending marks {} log problems {:?} scratch diff {:?}",
            r.verify.start_ok, r.verify.err, r.verify.canon.pending_marks, r.verify.canon.log_problems, r.verify.scratch_diff
        );
        println!("matched prefix: {:?}; outcome {}", v.matched_prefix, v.outcome);
        let mut keys = vec![];
        for (c, d) in &v.violations {
            println!("VIOLATED {}: {}", c, d);
            keys.push(c.clone());
        }
        for m in &v.machinery {
            println!("machinery: {}", m);
        }
        if v.violations.is_empty() && v.machinery.is_empty() {
            println!("property holds on this case");
        }
        seen.push(format!("{:?}|{}", keys, v.outcome));
    }
    if seen[0] != seen[1] {
        if case.mode == "interrupt" {
            println!(
                "the two replays differ: the statement in which the k-th progress callback falls depends on the order in which discret walks its HashMaps (marks, nested rows); this is variation of the code under test, not of the harness. Verdicts: {} / {}",
                seen[0], seen[1]
            );
            return 0;
        }
        eprintln!("machinery error: the two replays diverge: {} / {}", seen[0], seen[1]);
        return 2;
    }
    0
}
