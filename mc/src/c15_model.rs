//! C15 helper: the harness's own abstract syntax of a data model version, the three base models and
//! the edit operators (the alphabet of the explicit-state search). Nothing here calls discret.
use serde::{Deserialize, Serialize};

#[derive(Clone, Debug, PartialEq, Eq, Hash, Serialize, Deserialize)]
pub enum Ty {
    Int,
    Str,
    Bool,
    Float,
    B64,
    Json,
    Ref(String),
    Arr(String),
}
impl Ty {
    pub fn text(&self) -> String {
        match self {
            Ty::Int => "Integer".into(),
            Ty::Str => "String".into(),
            Ty::Bool => "Boolean".into(),
            Ty::Float => "Float".into(),
            Ty::B64 => "Base64".into(),
            Ty::Json => "Json".into(),
            Ty::Ref(e) => e.clone(),
            Ty::Arr(e) => format!("[{}]", e),
        }
    }
    pub fn is_ref(&self) -> bool {
        matches!(self, Ty::Ref(_) | Ty::Arr(_))
    }
    /// default literal used by the operators (only for the scalar types whose default path is sound:
    /// Json defaults produce unbalanced SQL and quoted strings are C04's business)
    pub fn default_lit(&self, alt: bool) -> Option<&'static str> {
        match self {
            Ty::Int => Some(if alt { "5" } else { "0" }),
            Ty::Str => Some(if alt { "\"e\"" } else { "\"d\"" }),
            Ty::Bool => Some(if alt { "false" } else { "true" }),
            Ty::Float => Some(if alt { "2.5" } else { "1.5" }),
            _ => None,
        }
    }
    pub fn indexable(&self) -> bool {
        matches!(self, Ty::Int | Ty::Str | Ty::Bool | Ty::Float | Ty::B64)
    }
    fn retyped(&self) -> Ty {
        match self {
            Ty::Int => Ty::Str,
            Ty::Str => Ty::Int,
            Ty::Bool => Ty::Int,
            Ty::Float => Ty::Str,
            Ty::B64 => Ty::Str,
            Ty::Json => Ty::Str,
            Ty::Ref(e) => Ty::Arr(e.clone()),
            Ty::Arr(e) => Ty::Ref(e.clone()),
        }
    }
}

#[derive(Clone, Debug, PartialEq, Eq, Hash, Serialize, Deserialize)]
pub struct Fld {
    pub name: String,
    pub ty: Ty,
    pub nullable: bool,
    pub default: Option<String>,
    pub deprecated: bool,
}
fn fld(name: &str, ty: Ty, nullable: bool, default: Option<&str>) -> Fld {
    Fld { name: name.into(), ty, nullable, default: default.map(|s| s.to_string()), deprecated: false }
}

#[derive(Clone, Debug, PartialEq, Eq, Hash, Serialize, Deserialize)]
pub struct Ent {
    pub name: String,
    pub deprecated: bool,
    pub no_fts: bool,
    pub fields: Vec<Fld>,
    pub indexes: Vec<Vec<String>>,
}

#[derive(Clone, Debug, PartialEq, Eq, Hash, Serialize, Deserialize)]
pub struct Ns {
    pub name: String,
    pub ents: Vec<Ent>,
}

#[derive(Clone, Debug, PartialEq, Eq, Hash, Serialize, Deserialize)]
pub struct Model {
    pub nss: Vec<Ns>,
    /// text that replaces the rendering (unparsable versions)
    pub raw: Option<String>,
}

pub fn full_name(ns: &str, ent: &str) -> String {
    if ns.is_empty() {
        ent.to_string()
    } else {
        format!("{}.{}", ns, ent)
    }
}

impl Model {
    pub fn text(&self) -> String {
        if let Some(r) = &self.raw {
            return r.clone();
        }
        let mut s = String::new();
        for ns in &self.nss {
            s.push_str(&format!("{} {{\n", ns.name));
            for e in &ns.ents {
                s.push_str("  ");
                if e.deprecated {
                    s.push_str("@deprecated ");
                }
                s.push_str(&e.name);
                if e.no_fts {
                    s.push_str("(no_full_text_index)");
                }
                s.push_str(" {\n");
                for f in &e.fields {
                    s.push_str("    ");
                    if f.deprecated {
                        s.push_str("@deprecated ");
                    }
                    s.push_str(&format!("{} : {}", f.name, f.ty.text()));
                    if f.nullable {
                        s.push_str(" nullable");
                    } else if let Some(d) = &f.default {
                        s.push_str(&format!(" default {}", d));
                    }
                    s.push_str(",\n");
                }
                for ix in &e.indexes {
                    s.push_str(&format!("    index({}),\n", ix.join(",")));
                }
                s.push_str("  }\n");
            }
            s.push_str("}\n");
        }
        s
    }
    /// (namespace index, entity index, full name) of every entity in text order
    pub fn entities(&self) -> Vec<(usize, usize, String)> {
        let mut v = vec![];
        for (ni, ns) in self.nss.iter().enumerate() {
            for (ei, e) in ns.ents.iter().enumerate() {
                v.push((ni, ei, full_name(&ns.name, &e.name)));
            }
        }
        v
    }
    pub fn entity(&self, full: &str) -> Option<&Ent> {
        for ns in &self.nss {
            for e in &ns.ents {
                if full_name(&ns.name, &e.name) == full {
                    return Some(e);
                }
            }
        }
        None
    }
}

pub fn bases() -> Vec<(&'static str, Model)> {
    let b0 = Model {
        raw: None,
        nss: vec![Ns {
            name: "".into(),
            ents: vec![
                Ent {
                    name: "Person".into(),
                    deprecated: false,
                    no_fts: false,
                    fields: vec![fld("name", Ty::Str, false, None), fld("age", Ty::Int, true, None)],
                    indexes: vec![vec!["name".into()]],
                },
                Ent {
                    name: "Pet".into(),
                    deprecated: false,
                    no_fts: false,
                    fields: vec![
                        fld("name", Ty::Str, false, Some("\"rex\"")),
                        fld("owner", Ty::Ref("Person".into()), true, None),
                    ],
                    indexes: vec![],
                },
            ],
        }],
    };
    let b1 = Model {
        raw: None,
        nss: vec![Ns {
            name: "ns".into(),
            ents: vec![
                Ent {
                    name: "P".into(),
                    deprecated: false,
                    no_fts: false,
                    fields: vec![
                        fld("name", Ty::Str, false, None),
                        fld("n", Ty::Int, false, Some("0")),
                        fld("q", Ty::Ref("ns.Q".into()), true, None),
                        fld("qs", Ty::Arr("ns.Q".into()), true, None),
                    ],
                    indexes: vec![],
                },
                Ent {
                    name: "Q".into(),
                    deprecated: false,
                    no_fts: false,
                    fields: vec![fld("name", Ty::Str, false, None), fld("f", Ty::Float, true, None)],
                    indexes: vec![],
                },
            ],
        }],
    };
    let mut old = fld("old", Ty::Bool, true, None);
    old.deprecated = true;
    let b2 = Model {
        raw: None,
        nss: vec![
            Ns {
                name: "".into(),
                ents: vec![Ent {
                    name: "A".into(),
                    deprecated: false,
                    no_fts: false,
                    fields: vec![fld("t", Ty::Str, false, None), old, fld("j", Ty::Json, true, None)],
                    indexes: vec![],
                }],
            },
            Ns {
                name: "app".into(),
                ents: vec![
                    Ent {
                        name: "B".into(),
                        deprecated: true,
                        no_fts: true,
                        fields: vec![fld("k", Ty::B64, true, None), fld("v", Ty::Int, false, Some("7"))],
                        indexes: vec![vec!["v".into()]],
                    },
                    Ent {
                        name: "C".into(),
                        deprecated: false,
                        no_fts: false,
                        fields: vec![fld("a", Ty::Arr("A".into()), true, None), fld("s", Ty::Str, false, Some("\"s\""))],
                        indexes: vec![],
                    },
                ],
            },
        ],
    };
    vec![("B0", b0), ("B1", b1), ("B2", b2)]
}

/// one candidate next version
#[derive(Clone, Debug, Serialize, Deserialize)]
pub struct Ver {
    /// operator, position free (used in finding keys)
    pub kind: String,
    /// where it was applied (replay / samples only)
    pub pos: String,
    /// what the documented compatibility rules say (histogram only, never a verdict)
    pub expect_valid: bool,
    /// for a mixed version: the operator of its valid part
    pub leak: Option<String>,
    /// first version of this kind in the alphabet of its state (reduced alphabet)
    pub first_of_kind: bool,
    pub model: Model,
}

/// operators on one entity
#[derive(Clone, Debug)]
pub enum EOp {
    AddNullable,
    AddDefault,
    AddArrSelf,
    Add2,
    Add3,
    AddDefaultTo(usize),
    RemoveDefault(usize),
    ChangeDefault(usize),
    ToNullable(usize),
    ToNotNullDefault(usize),
    RefToNotNull(usize),
    ToggleDepField(usize),
    ToggleDepEntity,
    AddIndex,
    RemoveIndex(usize),
    ToggleFts,
    // refused by the documented rules
    RemoveField(usize),
    SwapFields(usize),
    Retype(usize),
    RenameField(usize),
    AddRequired,
    AddMiddle(usize),
    ToNotNullNoDefault(usize),
    ReservedField,
    UnderscoreField,
    SystemField,
    DuplicateField,
    UnknownRef,
    BadDefault,
}

fn fresh_field_name(e: &Ent, skip: usize) -> String {
    let mut n = 1;
    let mut skipped = 0;
    loop {
        let c = format!("x{}", n);
        if !e.fields.iter().any(|f| f.name == c) {
            if skipped == skip {
                return c;
            }
            skipped += 1;
        }
        n += 1;
    }
}

impl EOp {
    pub fn valid(&self) -> bool {
        !matches!(
            self,
            EOp::RemoveField(_)
                | EOp::SwapFields(_)
                | EOp::Retype(_)
                | EOp::RenameField(_)
                | EOp::AddRequired
                | EOp::AddMiddle(_)
                | EOp::ToNotNullNoDefault(_)
                | EOp::ReservedField
                | EOp::UnderscoreField
                | EOp::SystemField
                | EOp::DuplicateField
                | EOp::UnknownRef
                | EOp::BadDefault
        )
    }
    pub fn pos(&self) -> String {
        match self {
            EOp::AddDefaultTo(i)
            | EOp::RemoveDefault(i)
            | EOp::ChangeDefault(i)
            | EOp::ToNullable(i)
            | EOp::ToNotNullDefault(i)
            | EOp::RefToNotNull(i)
            | EOp::ToggleDepField(i)
            | EOp::RemoveIndex(i)
            | EOp::RemoveField(i)
            | EOp::SwapFields(i)
            | EOp::Retype(i)
            | EOp::RenameField(i)
            | EOp::AddMiddle(i)
            | EOp::ToNotNullNoDefault(i) => format!("#{}", i),
            _ => "".into(),
        }
    }
    /// apply to `e`; returns the operator name, None when not applicable in this state
    pub fn apply(&self, e: &mut Ent, self_full: &str) -> Option<String> {
        match self {
            EOp::AddNullable => {
                let n = fresh_field_name(e, 0);
                e.fields.push(fld(&n, Ty::Int, true, None));
                Some("add-field-end:nullable".into())
            }
            EOp::AddDefault => {
                let n = fresh_field_name(e, 0);
                e.fields.push(fld(&n, Ty::Str, false, Some("\"d\"")));
                Some("add-field-end:default".into())
            }
            EOp::AddArrSelf => {
                let n = fresh_field_name(e, 0);
                e.fields.push(fld(&n, Ty::Arr(self_full.to_string()), true, None));
                Some("add-field-end:reference".into())
            }
            EOp::Add2 => {
                let a = fresh_field_name(e, 0);
                let b = fresh_field_name(e, 1);
                e.fields.push(fld(&a, Ty::Int, true, None));
                e.fields.push(fld(&b, Ty::Str, false, Some("\"d\"")));
                Some("add-2-fields".into())
            }
            EOp::Add3 => {
                let a = fresh_field_name(e, 0);
                let b = fresh_field_name(e, 1);
                let c = fresh_field_name(e, 2);
                e.fields.push(fld(&a, Ty::Int, true, None));
                e.fields.push(fld(&b, Ty::Str, false, Some("\"d\"")));
                e.fields.push(fld(&c, Ty::Bool, false, Some("true")));
                Some("add-3-fields".into())
            }
            EOp::AddDefaultTo(i) => {
                let f = e.fields.get_mut(*i)?;
                if f.nullable || f.default.is_some() {
                    return None;
                }
                f.default = Some(f.ty.default_lit(false)?.to_string());
                Some("add-default".into())
            }
            EOp::RemoveDefault(i) => {
                let f = e.fields.get_mut(*i)?;
                f.default.as_ref()?;
                f.default = None;
                Some("remove-default".into())
            }
            EOp::ChangeDefault(i) => {
                let f = e.fields.get_mut(*i)?;
                let cur = f.default.clone()?;
                let a = f.ty.default_lit(true)?;
                let b = f.ty.default_lit(false)?;
                f.default = Some(if cur == a { b.to_string() } else { a.to_string() });
                Some("change-default".into())
            }
            EOp::ToNullable(i) => {
                let f = e.fields.get_mut(*i)?;
                if f.nullable {
                    return None;
                }
                f.nullable = true;
                f.default = None;
                Some("to-nullable".into())
            }
            EOp::ToNotNullDefault(i) => {
                let f = e.fields.get_mut(*i)?;
                if !f.nullable || f.ty.is_ref() {
                    return None;
                }
                f.default = Some(f.ty.default_lit(false)?.to_string());
                f.nullable = false;
                Some("to-not-null-with-default".into())
            }
            EOp::RefToNotNull(i) => {
                let f = e.fields.get_mut(*i)?;
                if !f.nullable || !f.ty.is_ref() {
                    return None;
                }
                f.nullable = false;
                Some("reference-to-not-null".into())
            }
            EOp::ToggleDepField(i) => {
                let f = e.fields.get_mut(*i)?;
                f.deprecated = !f.deprecated;
                Some(if f.deprecated { "deprecate-field" } else { "undeprecate-field" }.into())
            }
            EOp::ToggleDepEntity => {
                e.deprecated = !e.deprecated;
                Some(if e.deprecated { "deprecate-entity" } else { "undeprecate-entity" }.into())
            }
            EOp::AddIndex => {
                let f = e
                    .fields
                    .iter()
                    .find(|f| f.ty.indexable() && !e.indexes.iter().any(|ix| ix.len() == 1 && ix[0] == f.name))?;
                let n = f.name.clone();
                e.indexes.push(vec![n]);
                Some("add-index".into())
            }
            EOp::RemoveIndex(i) => {
                if *i >= e.indexes.len() {
                    return None;
                }
                e.indexes.remove(*i);
                Some("remove-index".into())
            }
            EOp::ToggleFts => {
                e.no_fts = !e.no_fts;
                Some(if e.no_fts { "disable-full-text" } else { "enable-full-text" }.into())
            }
            EOp::RemoveField(i) => {
                if e.fields.len() < 2 || *i >= e.fields.len() {
                    return None;
                }
                let f = e.fields.remove(*i);
                e.indexes.retain(|ix| !ix.contains(&f.name));
                Some("remove-field".into())
            }
            EOp::SwapFields(i) => {
                if *i + 1 >= e.fields.len() {
                    return None;
                }
                e.fields.swap(*i, *i + 1);
                Some("reorder-fields".into())
            }
            EOp::Retype(i) => {
                let f = e.fields.get_mut(*i)?;
                f.ty = f.ty.retyped();
                if f.default.is_some() {
                    f.default = None;
                }
                let n = f.name.clone();
                let ixable = f.ty.indexable();
                if !ixable {
                    e.indexes.retain(|ix| !ix.contains(&n));
                }
                Some("retype-field".into())
            }
            EOp::RenameField(i) => {
                let f = e.fields.get_mut(*i)?;
                let old = f.name.clone();
                f.name = format!("{}_r", old);
                let new = f.name.clone();
                for ix in e.indexes.iter_mut() {
                    for n in ix.iter_mut() {
                        if *n == old {
                            *n = new.clone();
                        }
                    }
                }
                Some("rename-field".into())
            }
            EOp::AddRequired => {
                let n = fresh_field_name(e, 0);
                e.fields.push(fld(&n, Ty::Int, false, None));
                Some("add-required-field-without-default".into())
            }
            EOp::AddMiddle(i) => {
                if *i >= e.fields.len() {
                    return None;
                }
                let n = fresh_field_name(e, 0);
                e.fields.insert(*i, fld(&n, Ty::Int, true, None));
                Some("add-field-middle".into())
            }
            EOp::ToNotNullNoDefault(i) => {
                let f = e.fields.get_mut(*i)?;
                if !f.nullable || f.ty.is_ref() {
                    return None;
                }
                f.nullable = false;
                f.default = None;
                Some("to-not-null-without-default".into())
            }
            EOp::ReservedField => {
                e.fields.push(fld("String", Ty::Int, true, None));
                Some("reserved-field-name".into())
            }
            EOp::UnderscoreField => {
                e.fields.push(fld("_hidden", Ty::Int, true, None));
                Some("underscore-field-name".into())
            }
            EOp::SystemField => {
                e.fields.push(fld("room_id", Ty::Int, true, None));
                Some("system-field-name".into())
            }
            EOp::DuplicateField => {
                let f = e.fields.first()?.clone();
                e.fields.push(f);
                Some("duplicate-field".into())
            }
            EOp::UnknownRef => {
                let n = fresh_field_name(e, 0);
                e.fields.push(fld(&n, Ty::Ref("Nowhere".into()), true, None));
                Some("reference-to-unknown-entity".into())
            }
            EOp::BadDefault => {
                let n = fresh_field_name(e, 0);
                e.fields.push(fld(&n, Ty::Int, false, Some("\"text\"")));
                Some("default-of-wrong-type".into())
            }
        }
    }
}

/// every entity operator at every applicable position of `e`
fn eops_for(e: &Ent) -> Vec<EOp> {
    let mut v = vec![EOp::AddNullable, EOp::AddDefault, EOp::AddArrSelf, EOp::Add2, EOp::Add3];
    let n = e.fields.len();
    for i in 0..n {
        v.push(EOp::AddDefaultTo(i));
        v.push(EOp::RemoveDefault(i));
        v.push(EOp::ChangeDefault(i));
        v.push(EOp::ToNullable(i));
        v.push(EOp::ToNotNullDefault(i));
        v.push(EOp::RefToNotNull(i));
        v.push(EOp::ToggleDepField(i));
    }
    v.push(EOp::ToggleDepEntity);
    v.push(EOp::AddIndex);
    for i in 0..e.indexes.len() {
        v.push(EOp::RemoveIndex(i));
    }
    v.push(EOp::ToggleFts);
    for i in 0..n {
        v.push(EOp::RemoveField(i));
        v.push(EOp::SwapFields(i));
        v.push(EOp::Retype(i));
        v.push(EOp::RenameField(i));
        v.push(EOp::AddMiddle(i));
        v.push(EOp::ToNotNullNoDefault(i));
    }
    v.push(EOp::AddRequired);
    v.push(EOp::ReservedField);
    v.push(EOp::UnderscoreField);
    v.push(EOp::SystemField);
    v.push(EOp::DuplicateField);
    v.push(EOp::UnknownRef);
    v.push(EOp::BadDefault);
    v
}

fn simple_entity(name: &str) -> Ent {
    Ent {
        name: name.into(),
        deprecated: false,
        no_fts: false,
        fields: vec![fld("t", Ty::Str, true, None)],
        indexes: vec![],
    }
}

fn fresh_entity_name(m: &Model) -> String {
    let mut n = 1;
    loop {
        let c = format!("N{}", n);
        if !m.nss.iter().any(|ns| ns.ents.iter().any(|e| e.name == c)) {
            return c;
        }
        n += 1;
    }
}

fn fresh_ns_name(m: &Model) -> String {
    let mut n = 1;
    loop {
        let c = format!("zz{}", n);
        if !m.nss.iter().any(|ns| ns.name == c) {
            return c;
        }
        n += 1;
    }
}

/// rename every reference to `old` into `new`
fn rename_refs(m: &mut Model, old: &str, new: &str) {
    for ns in m.nss.iter_mut() {
        for e in ns.ents.iter_mut() {
            for f in e.fields.iter_mut() {
                match &mut f.ty {
                    Ty::Ref(t) | Ty::Arr(t) => {
                        if t == old {
                            *t = new.to_string();
                        }
                    }
                    _ => {}
                }
            }
        }
    }
}

fn referenced(m: &Model, full: &str) -> bool {
    m.nss.iter().any(|ns| {
        ns.ents.iter().any(|e| {
            e.fields.iter().any(|f| match &f.ty {
                Ty::Ref(t) | Ty::Arr(t) => t == full,
                _ => false,
            })
        })
    })
}

/// The alphabet of a state: every operator at every applicable position, simplest first.
pub fn alphabet(m: &Model) -> Vec<Ver> {
    let mut out: Vec<Ver> = vec![];
    let mut push = |kind: String, pos: String, valid: bool, leak: Option<String>, model: Model| {
        out.push(Ver { kind, pos, expect_valid: valid, leak, first_of_kind: false, model });
    };
    let ents = m.entities();

    // --- entity level operators, every entity, every position
    for (ni, ei, full) in &ents {
        for op in eops_for(&m.nss[*ni].ents[*ei]) {
            let mut m2 = m.clone();
            if let Some(kind) = op.apply(&mut m2.nss[*ni].ents[*ei], full) {
                push(kind, format!("{}{}", full, op.pos()), op.valid(), None, m2);
            }
        }
    }

    // --- model level, accepted by the documented rules
    {
        let mut m2 = m.clone();
        let n = fresh_ns_name(m);
        let en = fresh_entity_name(m);
        m2.nss.push(Ns { name: n.clone(), ents: vec![simple_entity(&en)] });
        push("add-namespace-end".into(), n, true, None, m2);
    }
    for (ni, ns) in m.nss.iter().enumerate() {
        let mut m2 = m.clone();
        let en = fresh_entity_name(m);
        m2.nss[ni].ents.push(simple_entity(&en));
        push("add-entity-end".into(), format!("{}:{}", ns.name, en), true, None, m2);
    }

    // --- model level, refused by the documented rules
    for (ni, ns) in m.nss.iter().enumerate() {
        for pos in 0..ns.ents.len() {
            let mut m2 = m.clone();
            let en = fresh_entity_name(m);
            m2.nss[ni].ents.insert(pos, simple_entity(&en));
            push("add-entity-middle".into(), format!("{}#{}", ns.name, pos), false, None, m2);
        }
    }
    {
        let mut m2 = m.clone();
        let n = fresh_ns_name(m);
        let en = fresh_entity_name(m);
        m2.nss.insert(0, Ns { name: n.clone(), ents: vec![simple_entity(&en)] });
        push("add-namespace-start".into(), n, false, None, m2);
    }
    for (ni, ei, full) in &ents {
        // remove an entity (unreferenced ones, so that the refusal is about the removal)
        if !referenced(m, full) && m.nss[*ni].ents.len() > 1 {
            let mut m2 = m.clone();
            m2.nss[*ni].ents.remove(*ei);
            push("remove-entity".into(), full.clone(), false, None, m2);
        }
        // rename an entity, references follow
        {
            let mut m2 = m.clone();
            let newn = format!("{}R", m.nss[*ni].ents[*ei].name);
            m2.nss[*ni].ents[*ei].name = newn.clone();
            let newfull = full_name(&m.nss[*ni].name, &newn);
            rename_refs(&mut m2, full, &newfull);
            push("rename-entity".into(), full.clone(), false, None, m2);
        }
        if *ei + 1 < m.nss[*ni].ents.len() {
            let mut m2 = m.clone();
            m2.nss[*ni].ents.swap(*ei, *ei + 1);
            push("reorder-entities".into(), full.clone(), false, None, m2);
        }
    }
    for ni in 0..m.nss.len() {
        if m.nss.len() > 1 {
            let mut m2 = m.clone();
            let removed = m2.nss.remove(ni);
            let still_referenced = removed
                .ents
                .iter()
                .any(|e| referenced(&m2, &full_name(&removed.name, &e.name)));
            if !still_referenced {
                push("remove-namespace".into(), removed.name.clone(), false, None, m2);
            }
        }
        if ni + 1 < m.nss.len() {
            let mut m2 = m.clone();
            m2.nss.swap(ni, ni + 1);
            push("reorder-namespaces".into(), m.nss[ni].name.clone(), false, None, m2);
        }
    }
    {
        let mut m2 = m.clone();
        m2.nss[0].ents.push(simple_entity("Integer"));
        push("reserved-entity-name".into(), "".into(), false, None, m2);
    }
    {
        let mut m2 = m.clone();
        m2.nss.push(Ns { name: "sys".into(), ents: vec![simple_entity("Mine")] });
        push("reserved-namespace".into(), "".into(), false, None, m2);
    }
    {
        let mut m2 = m.clone();
        let e = m2.nss[0].ents[0].clone();
        m2.nss[0].ents.push(e);
        push("duplicate-entity".into(), "".into(), false, None, m2);
    }
    {
        let mut m2 = m.clone();
        let t = m.text();
        let cut = t.trim_end().trim_end_matches('}').to_string();
        m2.raw = Some(cut);
        push("unparsable-text".into(), "".into(), false, None, m2);
    }

    // --- mixed versions: a valid change of entity X together with an invalid change of entity Y
    if ents.len() >= 2 {
        for (k, (xn, xe, xfull)) in ents.iter().enumerate() {
            let (yn, ye, yfull) = &ents[(k + 1) % ents.len()];
            let x = &m.nss[*xn].ents[*xe];
            let y = &m.nss[*yn].ents[*ye];
            let mut valid_ops = vec![EOp::AddNullable, EOp::ToggleDepEntity, EOp::ToggleDepField(0)];
            valid_ops.push(if x.fields[0].nullable {
                if x.fields[0].ty.is_ref() {
                    EOp::RefToNotNull(0)
                } else {
                    EOp::ToNotNullDefault(0)
                }
            } else {
                EOp::ToNullable(0)
            });
            valid_ops.push(if x.indexes.is_empty() { EOp::AddIndex } else { EOp::RemoveIndex(0) });
            let invalid_ops = vec![
                EOp::RemoveField(y.fields.len().saturating_sub(1)),
                EOp::Retype(0),
                EOp::AddRequired,
                EOp::SwapFields(0),
            ];
            for vo in &valid_ops {
                for io in &invalid_ops {
                    let mut m2 = m.clone();
                    let vk = vo.apply(&mut m2.nss[*xn].ents[*xe], xfull);
                    let ik = io.apply(&mut m2.nss[*yn].ents[*ye], yfull);
                    if let (Some(vk), Some(ik)) = (vk, ik) {
                        push(
                            format!("mixed:{}+{}", vk, ik),
                            format!("{}|{}", xfull, yfull),
                            false,
                            Some(vk),
                            m2,
                        );
                    }
                }
            }
        }
    }
    // --- mixed inside one entity: valid change of one field, invalid change of another
    for (ni, ei, full) in &ents {
        let e = &m.nss[*ni].ents[*ei];
        if e.fields.len() < 2 {
            continue;
        }
        let last = e.fields.len() - 1;
        for vo in [EOp::ToggleDepEntity, EOp::AddNullable, EOp::ToggleDepField(0)] {
            for io in [EOp::Retype(last), EOp::RemoveField(last)] {
                let mut m2 = m.clone();
                // the valid part first (field 0 / appended field): the position of the invalid part (last
                // original field) is not affected and the appended field gets a name that was never used
                let vk = vo.apply(&mut m2.nss[*ni].ents[*ei], full);
                let ik = io.apply(&mut m2.nss[*ni].ents[*ei], full);
                if let (Some(vk), Some(ik)) = (vk, ik) {
                    push(
                        format!("mixed-one-entity:{}+{}", vk, ik),
                        full.clone(),
                        false,
                        Some(format!("one-entity:{}", vk)),
                        m2,
                    );
                }
            }
        }
    }

    let mut seen: Vec<String> = vec![];
    for v in out.iter_mut() {
        if !seen.contains(&v.kind) {
            seen.push(v.kind.clone());
            v.first_of_kind = true;
        }
    }
    out
}
