//! C17 — full-text search returns exactly the rows whose current text matches.
//!
//! Part L (light world, E-STATE): breadth-first exploration of local histories on the real
//! pipeline phases (parse -> execute -> sign/validate -> batch commit) and the real ingestion write
//! path (`Node::filter_existing` -> `WriteMessage::Nodes` -> batch commit), with the search oracle
//! evaluated in every reached state for every token.
//! Part F (full world, see c17_full.rs): two real services sharing a room, real pulls.
use crate::c17_full;
use crate::common::*;
use crate::light::*;
use crate::world::{set_clock, sql_rows_conn, Sv, T0};
use discret::verif::database::authorisation_service::RoomAuthorisations;
use discret::verif::database::node::{Node, NodeIdentifier};
use discret::verif::database::query::{PreparedQueries, Query};
use discret::verif::database::query_language::data_model_parser::validate_json_for_entity;
use discret::verif::database::query_language::parameter::{Parameters, ParametersAdd};
use discret::verif::database::query_language::query_parser::QueryParser;
use discret::verif::database::sqlite_database::{prepare_connection, WriteMessage};
use discret::verif::security::{uid_encode, Uid};
use rusqlite::Connection;
use serde::{Deserialize, Serialize};
use serde_json::{json, Value};
use std::collections::{BTreeMap, BTreeSet, HashMap, HashSet};
use std::sync::Arc;
use std::time::Instant;
use tokio::sync::oneshot;

pub const TOKENS: [&str; 3] = ["aaa", "bbb", "ccc"];
/// never stored anywhere: must never match
pub const ABSENT: &str = "aab";
pub const MODEL_ON: &str = "ns { P { a:String nullable, b:String nullable } H { kids:[ns.P] nullable } }";
pub const MODEL_OFF: &str = "ns { P(no_full_text_index) { a:String nullable, b:String nullable } H { kids:[ns.P] nullable } }";
pub const SEARCH_QUERY: &str = "query { ns.P(search($s)) { id } }";
pub const SHARDS: usize = 16;

/// value of one text field: 0 = null, 1..=3 = TOKENS[v-1], 4 = "" (empty string)
pub type Val = u8;
pub const NULL: Val = 0;
pub const EMPTY: Val = 4;

pub fn val_str(v: Val) -> Option<&'static str> {
    match v {
        NULL => None,
        EMPTY => Some(""),
        k => Some(TOKENS[(k - 1) as usize]),
    }
}
fn val_lit(v: Val) -> String {
    match val_str(v) {
        None => "null".to_string(),
        Some(s) => format!("\"{}\"", s),
    }
}

#[derive(Clone, Debug, Serialize, Deserialize, PartialEq, Eq, Hash)]
pub enum Ev {
    /// local creation
    Create { a: Val, b: Val },
    /// local creation of the row as a sub entity of a new holder row (one mutation)
    CreateNested { a: Val, b: Val },
    /// local update of field a of the `row`-th live row, written as a sub entity of a new holder row
    SetANested { row: usize, v: Val },
    /// local update of one field of the `row`-th live row (rowid order)
    SetA { row: usize, v: Val },
    SetB { row: usize, v: Val },
    /// local update removing the whole text: both fields set to null in one mutation
    Clear { row: usize },
    /// local deletion (`row` = last live row frees the top storage slot: the next insert reuses it)
    Delete { row: usize },
    /// apply the other model version (indexing declared on <-> off)
    Toggle,
    /// a row created on another peer arrives through the ingestion write path
    DeliverNew { a: Val, b: Val },
    /// a newer version (same id, later mdate, other author) of a stored row arrives
    DeliverVersion { row: usize, a: Val, b: Val },
}
impl Ev {
    pub fn kind(&self) -> &'static str {
        match self {
            Ev::Create { .. } => "create",
            Ev::CreateNested { .. } => "create-nested",
            Ev::SetANested { .. } => "update-nested",
            Ev::SetA { .. } | Ev::SetB { .. } => "update",
            Ev::Clear { .. } => "clear",
            Ev::Delete { .. } => "delete",
            Ev::Toggle => "toggle",
            Ev::DeliverNew { .. } => "deliver-new",
            Ev::DeliverVersion { .. } => "deliver-version",
        }
    }
}

#[derive(Clone, Copy, Debug, PartialEq, Eq, Hash, PartialOrd, Ord)]
pub enum LastWrite {
    Local,
    DeliveredNew,
    DeliveredVersion,
}

/// the harness' own record of one live row (independent of the database)
#[derive(Clone, Debug, PartialEq, Eq, Hash)]
pub struct MRow {
    pub id: Uid,
    pub rowid: i64,
    pub cdate: i64,
    pub a: Val,
    pub b: Val,
    // provenance, used only to name the finding (never for the verdict)
    pub last_write: LastWrite,
    /// a local update happened after a delivered version replaced the text
    pub residue_from_version: bool,
    /// the last local write happened while the engine did not index the entity
    pub written_unindexed: bool,
}
impl MRow {
    pub fn has(&self, tok: &str) -> bool {
        val_str(self.a).map(|s| s.contains(tok)).unwrap_or(false)
            || val_str(self.b).map(|s| s.contains(tok)).unwrap_or(false)
    }
}

#[derive(Clone, Debug, Default)]
pub struct Shadow {
    pub rows: Vec<MRow>,
    /// storage slots that belonged to a row deleted earlier
    pub freed_slots: BTreeSet<i64>,
    /// a local update of a row that was not indexed with its stored text has been accepted
    pub totals_drifted: bool,
    /// model version currently declared (true = indexing enabled)
    pub declared_on: bool,
    /// rows referenced by at least one holder row (written as a sub entity at least once)
    pub held: BTreeSet<Uid>,
}

pub struct SearchQ {
    parser: Arc<QueryParser>,
    prepared: Arc<PreparedQueries>,
}
impl SearchQ {
    pub fn new(lp: &LPeer) -> Result<SearchQ, String> {
        let parser = QueryParser::parse(SEARCH_QUERY, &lp.model).map_err(|e| e.to_string())?;
        let prepared = PreparedQueries::build(&parser).map_err(|e| e.to_string())?;
        Ok(SearchQ { parser: Arc::new(parser), prepared: Arc::new(prepared) })
    }
    /// ids returned by the real query engine for search(text)
    pub fn run(&self, conn: &Connection, text: &str) -> Result<Vec<String>, String> {
        let mut p = Parameters::default();
        p.add("s", text.to_string()).map_err(|e| e.to_string())?;
        let mut q = Query {
            parameters: p,
            parser: self.parser.clone(),
            sql_queries: self.prepared.clone(),
        };
        let res = q.read(conn).map_err(|e| e.to_string())?;
        parse_ids(&res)
    }
}

pub fn parse_ids(result: &str) -> Result<Vec<String>, String> {
    let v: Value = serde_json::from_str(result).map_err(|e| format!("result json: {}", e))?;
    let arr = v
        .get("ns.P")
        .and_then(|a| a.as_array())
        .ok_or_else(|| format!("unexpected result {}", result))?;
    let mut ids = vec![];
    for r in arr {
        ids.push(
            r.get("id")
                .and_then(|i| i.as_str())
                .ok_or_else(|| format!("row without id in {}", result))?
                .to_string(),
        );
    }
    Ok(ids)
}

/// one explored world: the real light peer + the harness' shadow record
pub struct World {
    pub lp: LPeer,
    pub sh: Shadow,
    pub step: i64,
    pub p_short: String,
    pub a_short: String,
    pub b_short: String,
}

fn fresh_auth(seed: u8) -> RoomAuthorisations {
    RoomAuthorisations {
        signing_key: signing_key_for(seed),
        rooms: HashMap::new(),
        max_node_size: 256 * 1024,
    }
}

impl World {
    pub fn root(declared_on: bool) -> Result<World, String> {
        let lp = LPeer::new(1, if declared_on { MODEL_ON } else { MODEL_OFF })?;
        let (p_short, a_short, b_short) = {
            let e = lp.model.get_entity("ns.P").map_err(|e| e.to_string())?;
            (
                e.short_name.clone(),
                e.get_field("a").map_err(|e| e.to_string())?.short_name.clone(),
                e.get_field("b").map_err(|e| e.to_string())?.short_name.clone(),
            )
        };
        Ok(World {
            lp,
            sh: Shadow { declared_on, ..Default::default() },
            step: 0,
            p_short,
            a_short,
            b_short,
        })
    }

    /// copy of the whole world: SQLite backup of the connection + clones of the in-memory parts
    pub fn snapshot(&self) -> Result<World, String> {
        let mut conn = Connection::open_in_memory().map_err(|e| e.to_string())?;
        {
            let b = rusqlite::backup::Backup::new(&self.lp.conn, &mut conn).map_err(|e| e.to_string())?;
            b.run_to_completion(1000, std::time::Duration::from_millis(0), None)
                .map_err(|e| e.to_string())?;
        }
        prepare_connection(&conn).map_err(|e| e.to_string())?;
        Ok(World {
            lp: LPeer { conn, auth: fresh_auth(self.lp.seed), model: self.lp.model.clone(), seed: self.lp.seed },
            sh: self.sh.clone(),
            step: self.step,
            p_short: self.p_short.clone(),
            a_short: self.a_short.clone(),
            b_short: self.b_short.clone(),
        })
    }

    pub fn engine_indexes(&self) -> bool {
        self.lp.model.get_entity("ns.P").map(|e| e.enable_full_text).unwrap_or(false)
    }

    pub fn enabled(&self, ev: &Ev, max_rows: usize) -> bool {
        let n = self.sh.rows.len();
        match ev {
            Ev::Create { .. } | Ev::CreateNested { .. } | Ev::DeliverNew { .. } => n < max_rows,
            Ev::SetA { row, .. } | Ev::SetANested { row, .. } | Ev::SetB { row, .. } | Ev::Clear { row } | Ev::Delete { row } => *row < n,
            Ev::DeliverVersion { row, .. } => *row < n,
            Ev::Toggle => true,
        }
    }

    fn rowid_of(&self, id: &Uid) -> Result<(i64, i64), String> {
        let r = Node::get_with_entity(id, &self.p_short, &self.lp.conn)
            .map_err(|e| e.to_string())?
            .ok_or("row not found after write".to_string())?;
        Ok((r._local_id.ok_or("no rowid")?, r.cdate))
    }

    fn delivered_json(&self, a: Val, b: Val, version: bool) -> String {
        // what the remote author's mutations leave in the row: a field that was given a value is
        // present; a field emptied later holds "" (an explicit null is refused by the receiving side's
        // json validation, so it can never be delivered)
        let mut m = serde_json::Map::new();
        match val_str(a) {
            Some(s) => {
                m.insert(self.a_short.clone(), json!(s));
            }
            None => {
                if version {
                    m.insert(self.a_short.clone(), json!(""));
                }
            }
        }
        if let Some(s) = val_str(b) {
            m.insert(self.b_short.clone(), json!(s));
        }
        Value::Object(m).to_string()
    }

    /// the ingestion write path, as `synchronise_day` + `GraphDatabase::add_nodes` + the writer do it
    fn deliver(&self, id: Uid, cdate: i64, mdate: i64, json: String) -> Result<bool, String> {
        let mut node = Node {
            id,
            room_id: None,
            cdate,
            mdate,
            _entity: self.p_short.clone(),
            _json: Some(json),
            ..Default::default()
        };
        node.sign(&signing_key_for(2)).map_err(|e| e.to_string())?;
        let mut advertised = HashSet::new();
        advertised.insert(NodeIdentifier { id, mdate, signature: node._signature.clone() });
        let mut ntis = Node::filter_existing(&mut advertised, &self.lp.conn).map_err(|e| e.to_string())?;
        if ntis.is_empty() {
            return Ok(false);
        }
        let entity = self.lp.model.get_entity("ns.P").map_err(|e| e.to_string())?;
        let mut valid = vec![];
        for mut nti in ntis.drain(..) {
            let mut n = node.clone();
            n._local_id = nti.old_local_id;
            if validate_json_for_entity(entity, &n._json).is_err() {
                return Ok(false);
            }
            nti.node = Some(n);
            nti.entity_name = Some("ns.P".to_string());
            valid.push(nti);
        }
        let (tx, _rx) = oneshot::channel();
        let mut buffer = vec![WriteMessage::Nodes(valid, vec![], tx)];
        self.lp.commit(&mut buffer)?;
        Ok(true)
    }

    /// apply one event on the real code, then on the shadow record. Err = the engine refused it.
    pub fn apply(&mut self, ev: &Ev) -> Result<(), String> {
        self.step += 1;
        let now = tick_clock();
        let engine_on = self.engine_indexes();
        match ev {
            Ev::Create { a, b } | Ev::CreateNested { a, b } => {
                let nested = matches!(ev, Ev::CreateNested { .. });
                let mut fields = String::new();
                if *a != NULL {
                    fields.push_str(&format!("a:{} ", val_lit(*a)));
                }
                if *b != NULL {
                    fields.push_str(&format!("b:{} ", val_lit(*b)));
                }
                if fields.is_empty() {
                    fields.push_str("a:null ");
                }
                let text = if nested { format!("mutate {{ ns.H {{ kids:[{{ {} }}] }} }}", fields) } else { format!("mutate {{ ns.P {{ {} }} }}", fields) };
                let q = self.lp.mutate(&text, Parameters::default())?;
                let id = if nested {
                    q.mutate_entities[0].sub_nodes.get("kids").and_then(|k| k.first()).ok_or("nested creation returned no sub entity")?.node_to_mutate.id
                } else {
                    q.mutate_entities[0].node_to_mutate.id
                };
                let (rowid, cdate) = self.rowid_of(&id)?;
                if nested {
                    self.sh.held.insert(id);
                }
                self.sh.rows.push(MRow {
                    id,
                    rowid,
                    cdate,
                    a: *a,
                    b: *b,
                    last_write: LastWrite::Local,
                    residue_from_version: false,
                    written_unindexed: !engine_on,
                });
                self.sh.rows.sort_by_key(|r| r.rowid);
            }
            Ev::SetA { row, .. } | Ev::SetANested { row, .. } | Ev::SetB { row, .. } | Ev::Clear { row } => {
                let fields = match ev {
                    Ev::SetA { v, .. } | Ev::SetANested { v, .. } => format!("a:{}", val_lit(*v)),
                    Ev::SetB { v, .. } => format!("b:{}", val_lit(*v)),
                    _ => "a:null b:null".to_string(),
                };
                let id = self.sh.rows[*row].id;
                let mut p = Parameters::default();
                p.add("id", uid_encode(&id)).map_err(|e| e.to_string())?;
                let text = if matches!(ev, Ev::SetANested { .. }) {
                    format!("mutate {{ ns.H {{ kids:[{{ id:$id {} }}] }} }}", fields)
                } else {
                    format!("mutate {{ ns.P {{ id:$id {} }} }}", fields)
                };
                self.lp.mutate(&text, p)?;
                if matches!(ev, Ev::SetANested { .. }) {
                    self.sh.held.insert(id);
                }
                let r = &mut self.sh.rows[*row];
                match ev {
                    Ev::SetA { v, .. } | Ev::SetANested { v, .. } => r.a = *v,
                    Ev::SetB { v, .. } => r.b = *v,
                    _ => {
                        r.a = NULL;
                        r.b = NULL;
                    }
                }
                if engine_on {
                    if r.last_write != LastWrite::Local {
                        self.sh.totals_drifted = true;
                    }
                    if r.last_write == LastWrite::DeliveredVersion {
                        r.residue_from_version = true;
                    }
                }
                r.last_write = LastWrite::Local;
                r.written_unindexed = !engine_on;
            }
            Ev::Delete { row } => {
                let id = self.sh.rows[*row].id;
                let mut p = Parameters::default();
                p.add("id", uid_encode(&id)).map_err(|e| e.to_string())?;
                self.lp.delete("delete { ns.P { $id } }", p)?;
                let r = self.sh.rows.remove(*row);
                self.sh.freed_slots.insert(r.rowid);
            }
            Ev::Toggle => {
                let next = !self.sh.declared_on;
                self.lp
                    .model
                    .update(if next { MODEL_ON } else { MODEL_OFF })
                    .map_err(|e| e.to_string())?;
                self.sh.declared_on = next;
            }
            Ev::DeliverNew { a, b } => {
                let id = discret::verif::security::new_uid();
                let json = self.delivered_json(*a, *b, false);
                if self.deliver(id, now, now, json)? {
                    let (rowid, cdate) = self.rowid_of(&id)?;
                    self.sh.rows.push(MRow {
                        id,
                        rowid,
                        cdate,
                        a: *a,
                        b: *b,
                        last_write: LastWrite::DeliveredNew,
                        residue_from_version: false,
                        written_unindexed: false,
                    });
                    self.sh.rows.sort_by_key(|r| r.rowid);
                } else {
                    return Err("delivery refused before the write".to_string());
                }
            }
            Ev::DeliverVersion { row, a, b } => {
                let (id, cdate) = (self.sh.rows[*row].id, self.sh.rows[*row].cdate);
                let json = self.delivered_json(*a, *b, true);
                if self.deliver(id, cdate, now, json)? {
                    let r = &mut self.sh.rows[*row];
                    r.a = if *a == NULL { EMPTY } else { *a };
                    r.b = *b;
                    r.last_write = LastWrite::DeliveredVersion;
                } else {
                    return Err("delivery refused before the write".to_string());
                }
            }
        }
        Ok(())
    }

    /// rows of ns.P as stored: (rowid, id, text of the string fields)
    pub fn stored_rows(&self) -> Result<Vec<(i64, Uid, Vec<String>)>, String> {
        let rows = sql_rows_conn(
            &self.lp.conn,
            &format!("SELECT rowid, id, _json FROM _node WHERE _entity = '{}' ORDER BY rowid", self.p_short),
        )?;
        let mut out = vec![];
        for r in rows {
            let rowid = r[0].int().ok_or("rowid")?;
            let idb = r[1].blob().ok_or("id")?;
            let mut id: Uid = Default::default();
            if idb.len() != id.len() {
                return Err("id size".to_string());
            }
            id.copy_from_slice(idb);
            let mut texts = vec![];
            if let Some(j) = r[2].text() {
                let v: Value = serde_json::from_str(j).map_err(|e| e.to_string())?;
                collect_strings(&v, &mut texts);
            }
            out.push((rowid, id, texts));
        }
        Ok(out)
    }

    /// canonical state of the database part that search depends on (rowids kept, ids and dates dropped)
    pub fn canonical(&self, stored: &[(i64, Uid, Vec<String>)]) -> Result<Canon, String> {
        let c = &self.lp.conn;
        c.execute_batch("CREATE VIRTUAL TABLE IF NOT EXISTS temp.c17_vocab USING fts5vocab('main','_node_fts','instance')")
            .map_err(|e| e.to_string())?;
        let index = sql_rows_conn(c, "SELECT term, doc, col, offset FROM temp.c17_vocab ORDER BY 1,2,3,4")?;
        let docsize = sql_rows_conn(c, "SELECT id, sz FROM _node_fts_docsize ORDER BY id")?;
        let totals = sql_rows_conn(c, "SELECT block FROM _node_fts_data WHERE id = 1")?;
        let mut rows = vec![];
        for (rowid, id, _) in stored {
            let m = self.sh.rows.iter().find(|r| &r.id == id);
            rows.push((*rowid, m.map(|r| (r.a, r.b))));
        }
        Ok(Canon { rows, index, docsize, totals, declared_on: self.sh.declared_on, engine_on: self.engine_indexes() })
    }
}

fn collect_strings(v: &Value, out: &mut Vec<String>) {
    match v {
        Value::String(s) => out.push(s.clone()),
        Value::Array(a) => a.iter().for_each(|x| collect_strings(x, out)),
        Value::Object(m) => m.values().for_each(|x| collect_strings(x, out)),
        _ => {}
    }
}

#[derive(Clone, Debug, PartialEq, Eq, Hash)]
pub struct Canon {
    pub rows: Vec<(i64, Option<(Val, Val)>)>,
    pub index: Vec<Vec<Sv>>,
    pub docsize: Vec<Vec<Sv>>,
    pub totals: Vec<Vec<Sv>>,
    pub declared_on: bool,
    pub engine_on: bool,
}

#[derive(Clone, Debug)]
pub struct Alphabet {
    /// rows created / updated as sub entities of a holder row
    pub nested_create: Vec<(Val, Val)>,
    pub nested_set: Vec<Val>,
    pub create: Vec<(Val, Val)>,
    pub set_vals: Vec<Val>,
    pub deliver_new: Vec<(Val, Val)>,
    pub deliver_version: Vec<(Val, Val)>,
    pub max_rows: usize,
    pub depth: usize,
}
impl Alphabet {
    pub fn events(&self) -> Vec<Ev> {
        let mut e = vec![];
        for (a, b) in &self.create {
            e.push(Ev::Create { a: *a, b: *b });
        }
        for (a, b) in &self.nested_create {
            e.push(Ev::CreateNested { a: *a, b: *b });
        }
        for row in 0..self.max_rows {
            for v in &self.nested_set {
                e.push(Ev::SetANested { row, v: *v });
            }
            for v in &self.set_vals {
                e.push(Ev::SetA { row, v: *v });
            }
            for v in &self.set_vals {
                e.push(Ev::SetB { row, v: *v });
            }
            e.push(Ev::Clear { row });
            e.push(Ev::Delete { row });
        }
        e.push(Ev::Toggle);
        for (a, b) in &self.deliver_new {
            e.push(Ev::DeliverNew { a: *a, b: *b });
        }
        for row in 0..self.max_rows {
            for (a, b) in &self.deliver_version {
                e.push(Ev::DeliverVersion { row, a: *a, b: *b });
            }
        }
        e
    }
}

/// rows written as sub entities of a holder row, next to plain writes of the same rows
fn nested_alphabet(depth: usize) -> Alphabet {
    Alphabet {
        nested_create: vec![(1, NULL), (2, 3)],
        nested_set: vec![3, NULL],
        create: vec![(1, 2)],
        set_vals: vec![1],
        deliver_new: vec![],
        deliver_version: vec![],
        max_rows: 2,
        depth,
    }
}

/// the exploration passes of a tier: (label, alphabet)
pub fn passes(tier: Tier) -> Vec<(&'static str, Alphabet)> {
    // rows hold 0..2 tokens
    let all_texts = vec![(NULL, NULL), (1, NULL), (2, NULL), (3, NULL), (1, 2), (1, 3), (2, 3)];
    match tier {
        Tier::Quick => vec![(
            "wide",
            Alphabet {
                nested_create: vec![],
                nested_set: vec![],
                create: vec![(NULL, NULL), (1, NULL), (3, NULL), (1, 2), (2, 3)],
                set_vals: vec![NULL, 1, 3],
                deliver_new: vec![(1, NULL), (2, 3)],
                deliver_version: vec![(NULL, NULL), (3, NULL), (1, 2)],
                max_rows: 3,
                depth: 4,
            },
        ),
        (
            "nested",
            nested_alphabet(4),
        )],
        Tier::Thorough => vec![
            ("nested", nested_alphabet(6)),
            (
                "wide",
                Alphabet {
                    nested_create: vec![],
                    nested_set: vec![],
                    create: all_texts,
                    set_vals: vec![NULL, 1, 2, 3, EMPTY],
                    deliver_new: vec![(1, NULL), (2, 3)],
                    deliver_version: vec![(NULL, NULL), (3, NULL), (1, 2)],
                    max_rows: 3,
                    depth: 5,
                },
            ),
            (
                "deep",
                Alphabet {
                    nested_create: vec![],
                    nested_set: vec![],
                    create: vec![(NULL, NULL), (1, NULL), (1, 2)],
                    set_vals: vec![NULL, 1, 3],
                    deliver_new: vec![(1, NULL)],
                    deliver_version: vec![(NULL, NULL), (3, NULL)],
                    max_rows: 2,
                    depth: 6,
                },
            ),
        ],
    }
}

/// outcome of the oracle in one state
#[derive(Clone, Debug, Default, PartialEq, Eq, Hash)]
pub struct Verdict {
    /// per probe (3 tokens + the absent one): (expected count, returned count, missed, stale)
    pub per_probe: Vec<(usize, usize, usize, usize)>,
    pub skipped_not_indexed: bool,
}

#[derive(Clone, Debug, Serialize, Deserialize)]
pub struct Problem {
    pub key: String,
    pub what: String,
}

fn cause_missed(r: &MRow) -> &'static str {
    match r.last_write {
        LastWrite::DeliveredNew => "row-delivered-by-synchronisation",
        LastWrite::DeliveredVersion => "newer-version-delivered-by-synchronisation",
        LastWrite::Local => {
            if r.written_unindexed {
                "indexing-enabled-by-later-model-version"
            } else {
                "local-writes-only"
            }
        }
    }
}

fn cause_stale(r: &MRow, sh: &Shadow) -> &'static str {
    if r.last_write == LastWrite::DeliveredVersion {
        "newer-version-delivered-by-synchronisation"
    } else if r.residue_from_version {
        "local-update-after-delivered-version"
    } else if sh.freed_slots.contains(&r.rowid) {
        "storage-slot-reused-after-deletion"
    } else {
        "local-writes-only"
    }
}

fn cause_engine_error(ev: &Ev, sh: &Shadow) -> String {
    let row = match ev {
        Ev::SetA { row, .. } | Ev::SetANested { row, .. } | Ev::SetB { row, .. } | Ev::Clear { row } | Ev::Delete { row } | Ev::DeliverVersion { row, .. } => {
            sh.rows.get(*row)
        }
        _ => None,
    };
    let cause = match (ev, row) {
        (Ev::SetA { .. } | Ev::SetANested { .. } | Ev::SetB { .. } | Ev::Clear { .. }, Some(r)) => match r.last_write {
            LastWrite::DeliveredNew => "of-row-delivered-by-synchronisation",
            LastWrite::DeliveredVersion => "of-newer-version-delivered-by-synchronisation",
            LastWrite::Local => {
                if r.written_unindexed {
                    "of-row-written-before-indexing-was-enabled"
                } else if sh.totals_drifted {
                    "after-index-totals-drifted-by-update-of-delivered-row"
                } else {
                    "local-writes-only"
                }
            }
        },
        _ => "local-writes-only",
    };
    let kind = if ev.kind() == "clear" { "update" } else { ev.kind() };
    format!("{}-{}", kind, cause)
}

fn short_err(e: &str) -> String {
    let e = e.to_lowercase();
    if e.contains("malformed") {
        "database-disk-image-is-malformed".to_string()
    } else {
        e.chars().filter(|c| c.is_ascii_alphanumeric() || *c == ' ').take(40).collect::<String>().replace(' ', "-")
    }
}

/// the oracle: search(token) == rows whose current text contains token, for every probe
pub fn evaluate(w: &World, sq: &SearchQ, stored: &[(i64, Uid, Vec<String>)]) -> Result<(Verdict, Vec<Problem>), String> {
    let mut v = Verdict::default();
    let mut problems = vec![];
    if !w.sh.declared_on {
        v.skipped_not_indexed = true;
        return Ok((v, problems));
    }
    for probe in TOKENS.iter().chain(std::iter::once(&ABSENT)) {
        let expected: BTreeSet<String> = stored
            .iter()
            .filter(|(_, _, texts)| texts.iter().any(|t| t.contains(probe)))
            .map(|(_, id, _)| uid_encode(id))
            .collect();
        let got = match sq.run(&w.lp.conn, probe) {
            Ok(g) => g,
            Err(e) => {
                problems.push(Problem {
                    key: format!("engine error | search | {}", short_err(&e)),
                    what: format!("search(\"{}\") failed: {}", probe, e),
                });
                v.per_probe.push((expected.len(), 0, 0, 0));
                continue;
            }
        };
        let got_set: BTreeSet<String> = got.iter().cloned().collect();
        if got_set.len() != got.len() {
            problems.push(Problem {
                key: "duplicate row | search".to_string(),
                what: format!("search(\"{}\") returned a row twice: {:?}", probe, got),
            });
        }
        let mut missed = 0;
        let mut stale = 0;
        for id in expected.difference(&got_set) {
            missed += 1;
            let r = w.sh.rows.iter().find(|r| &uid_encode(&r.id) == id);
            let cause = r.map(cause_missed).unwrap_or("row-unknown-to-harness");
            problems.push(Problem {
                key: format!("missed match | {}", cause),
                what: format!(
                    "search(\"{}\") does not return row #{} whose current text is {:?} (row history: {})",
                    probe,
                    r.map(|r| r.rowid).unwrap_or(-1),
                    r.map(|r| (val_str(r.a), val_str(r.b))),
                    cause
                ),
            });
        }
        for id in got_set.difference(&expected) {
            stale += 1;
            let r = w.sh.rows.iter().find(|r| &uid_encode(&r.id) == id);
            let cause = r.map(|r| cause_stale(r, &w.sh)).unwrap_or("row-unknown-to-harness");
            problems.push(Problem {
                key: format!("stale match | {}", cause),
                what: format!(
                    "search(\"{}\") returns row #{} whose current text is {:?} (row history: {})",
                    probe,
                    r.map(|r| r.rowid).unwrap_or(-1),
                    r.map(|r| (val_str(r.a), val_str(r.b))),
                    cause
                ),
            });
        }
        v.per_probe.push((expected.len(), got.len(), missed, stale));
        // the same search written on the reference of the holder rows: exactly the held rows whose text matches
        if !w.sh.held.is_empty() && missed == 0 && stale == 0 {
            // (only where the plain search is right: otherwise the index itself is off, which is reported above)
            let want: BTreeSet<String> = expected.iter().filter(|id| w.sh.held.iter().any(|h| &uid_encode(h) == *id)).cloned().collect();
            match nested_search(&w.lp, probe) {
                Ok(found) => {
                    if found != want {
                        let missing = want.difference(&found).count();
                        let extra = found.difference(&want).count();
                        problems.push(Problem {
                            key: format!("nested search | {}", if missing > 0 { "missed match" } else { "stale match" }),
                            what: format!("holder {{ kids(search(\"{}\")) }} returns {} held rows, {} matching ones are missing and {} do not match", probe, found.len(), missing, extra),
                        });
                    }
                }
                Err(e) => problems.push(Problem { key: format!("engine error | nested search | {}", short_err(&e)), what: format!("nested search(\"{}\") failed: {}", probe, e) }),
            }
        }
    }
    Ok((v, problems))
}

/// ids of the rows returned by `search` written on the reference field of the holder rows
fn nested_search(lp: &LPeer, text: &str) -> Result<BTreeSet<String>, String> {
    let parser = QueryParser::parse("query { ns.H { kids(search($s)) { id } } }", &lp.model).map_err(|e| e.to_string())?;
    let prepared = PreparedQueries::build(&parser).map_err(|e| e.to_string())?;
    let mut p = Parameters::default();
    p.add("s", text.to_string()).map_err(|e| e.to_string())?;
    let mut q = Query { parameters: p, parser: Arc::new(parser), sql_queries: Arc::new(prepared) };
    let res = q.read(&lp.conn).map_err(|e| e.to_string())?;
    let v: Value = serde_json::from_str(&res).map_err(|e| format!("result json: {}", e))?;
    let mut ids = BTreeSet::new();
    for h in v.get("ns.H").and_then(|a| a.as_array()).ok_or_else(|| format!("unexpected result {}", res))? {
        if let Some(kids) = h.get("kids").and_then(|k| k.as_array()) {
            for k in kids {
                if let Some(id) = k.get("id").and_then(|i| i.as_str()) {
                    ids.insert(id.to_string());
                }
            }
        }
    }
    Ok(ids)
}

/// the harness record and the stored rows must describe the same rows (otherwise the harness is broken)
fn check_shadow(w: &World, stored: &[(i64, Uid, Vec<String>)]) -> Result<(), String> {
    if stored.len() != w.sh.rows.len() {
        return Err(format!("harness record has {} rows, database {}", w.sh.rows.len(), stored.len()));
    }
    for ((rowid, id, texts), m) in stored.iter().zip(w.sh.rows.iter()) {
        if *rowid != m.rowid || *id != m.id {
            return Err(format!("row order/rowid differs: db #{} harness #{}", rowid, m.rowid));
        }
        let mut want: Vec<&str> = vec![];
        if let Some(s) = val_str(m.a) {
            want.push(s);
        }
        if let Some(s) = val_str(m.b) {
            want.push(s);
        }
        let mut have: Vec<&str> = texts.iter().map(|s| s.as_str()).collect();
        want.sort();
        have.sort();
        if want != have {
            return Err(format!("row #{} text differs: db {:?} harness {:?}", rowid, have, want));
        }
    }
    Ok(())
}

fn summarize(v: &Verdict) -> String {
    if v.skipped_not_indexed {
        return "not-indexed:skipped".to_string();
    }
    let exp: usize = v.per_probe.iter().map(|p| p.0).sum();
    let missed: usize = v.per_probe.iter().map(|p| p.2).sum();
    let stale: usize = v.per_probe.iter().map(|p| p.3).sum();
    format!(
        "{}{}{}",
        if exp == 0 { "no-match-expected" } else { "matches-expected" },
        if missed > 0 { "+missed" } else { "" },
        if stale > 0 { "+stale" } else { "" }
    )
}

/// harness clock shared by the explorer threads: strictly increasing, one millisecond per event
static CLOCK_G: std::sync::Mutex<i64> = std::sync::Mutex::new(T0);
pub fn tick_clock() -> i64 {
    let mut g = CLOCK_G.lock().unwrap();
    *g += 1;
    set_clock(*g);
    *g
}

/// state reached by a history, rebuilt from a copy of the root world
fn build(root: &World, history: &[Ev]) -> Result<World, String> {
    let mut w = root.snapshot()?;
    for ev in history {
        w.apply(ev).map_err(|e| format!("replay of {:?} failed: {}", ev, e))?;
    }
    Ok(w)
}

#[derive(Clone, Debug, Serialize, Deserialize)]
struct Node1 {
    root_on: bool,
    history: Vec<Ev>,
}

/// what one transition produced (computed in a worker process, merged in frontier order)
#[derive(Clone, Debug, Serialize, Deserialize)]
enum Step {
    Reached {
        ev: Ev,
        /// dedup key (canonical state + provenance)
        key: u64,
        canon: u64,
        verdict: u64,
        nontrivial: u64,
        summary: String,
        problems: Vec<Problem>,
    },
    Refused {
        ev: Ev,
        /// the model declares the entity indexed (the property only speaks about those)
        in_scope: bool,
        key: String,
        what: String,
    },
}

fn visit(w: &World, sq: &SearchQ, last: Option<&Ev>) -> Result<Step, String> {
    let stored = w.stored_rows()?;
    check_shadow(w, &stored)?;
    let canon = w.canonical(&stored)?;
    let (verdict, problems) = evaluate(w, sq, &stored)?;
    let ch = hash64(&canon);
    // provenance is part of the dedup key so that findings are named the same way on every path
    let prov: Vec<(LastWrite, bool, bool, bool)> = w
        .sh
        .rows
        .iter()
        .map(|r| (r.last_write, r.residue_from_version, r.written_unindexed, w.sh.freed_slots.contains(&r.rowid)))
        .collect();
    Ok(Step::Reached {
        ev: last.cloned().unwrap_or(Ev::Toggle),
        key: hash64(&(ch, prov, w.sh.totals_drifted)),
        canon: ch,
        verdict: hash64(&verdict),
        nontrivial: hash64(&(last.map(|e| e.kind()).unwrap_or("root"), &verdict)),
        summary: summarize(&verdict),
        problems,
    })
}

/// expand one state: every enabled event, each on its own copy of the state
fn expand(roots: &[World; 2], sq: &SearchQ, events: &[Ev], max_rows: usize, node: &Node1) -> Result<Vec<Step>, String> {
    let base = build(&roots[node.root_on as usize], &node.history)?;
    let mut steps = vec![];
    for ev in events {
        if !base.enabled(ev, max_rows) {
            continue;
        }
        let mut w = base.snapshot()?;
        match w.apply(ev) {
            Ok(()) => steps.push(visit(&w, sq, Some(ev))?),
            Err(e) => steps.push(Step::Refused {
                ev: ev.clone(),
                in_scope: w.sh.declared_on,
                key: format!("engine error | {} | {}", cause_engine_error(ev, &base.sh), short_err(&e)),
                what: format!("{:?} was refused: {}", ev, e),
            }),
        }
    }
    Ok(steps)
}

/// worker process of the light-world exploration: one job (a state, given by its history) per input
/// line, one line of results (every enabled event applied to a copy of that state) per job
fn light_worker(tier: Tier, label: &str) -> i32 {
    use std::io::{BufRead, Write};
    let alpha = match passes(tier).into_iter().find(|(l, _)| *l == label) {
        Some((_, a)) => a,
        None => return 2,
    };
    let events = alpha.events();
    let init = (|| -> Result<([World; 2], SearchQ), String> {
        let roots = [World::root(false)?, World::root(true)?];
        let sq = SearchQ::new(&roots[1].lp)?;
        Ok((roots, sq))
    })();
    let (roots, sq) = match init {
        Ok(x) => x,
        Err(e) => {
            eprintln!("light worker: {}", e);
            return 2;
        }
    };
    // the description of a finding is sent with its first occurrence only (jobs arrive in frontier order)
    let mut described: HashSet<String> = HashSet::new();
    let stdin = std::io::stdin();
    let stdout = std::io::stdout();
    let mut so = stdout.lock();
    for line in stdin.lock().lines() {
        let Ok(line) = line else { break };
        if line.is_empty() {
            continue;
        }
        let res: Result<Vec<Step>, String> = serde_json::from_str::<(bool, Node1)>(&line)
            .map_err(|e| e.to_string())
            .and_then(|(root_job, node)| {
                if root_job {
                    // root job: evaluate the state itself
                    let w = build(&roots[node.root_on as usize], &[])?;
                    Ok(vec![visit(&w, &sq, None)?])
                } else {
                    expand(&roots, &sq, &events, alpha.max_rows, &node)
                }
            });
        let mut res = res;
        if let Ok(steps) = &mut res {
            for st in steps.iter_mut() {
                match st {
                    Step::Reached { problems, .. } => {
                        for p in problems.iter_mut() {
                            if !described.insert(p.key.clone()) {
                                p.what.clear();
                            }
                        }
                    }
                    Step::Refused { key, what, .. } => {
                        if !described.insert(key.clone()) {
                            what.clear();
                        }
                    }
                }
            }
        }
        if writeln!(so, "{}", serde_json::to_string(&res).unwrap()).is_err() || so.flush().is_err() {
            break;
        }
    }
    0
}

/// breadth-first exploration with one global set of seen states: the frontier of each level is dealt
/// round-robin to worker processes, results are merged in frontier order (the outcome does not depend on
/// the number of workers)
fn explore_light(tier: Tier, label: &str, alpha: &Alphabet) -> Outcome {
    use std::io::{BufRead, BufReader, Write};
    use std::process::{Command, Stdio};
    let mut out = Outcome::default();
    let mut seen: HashSet<u64> = HashSet::new();
    // canonical state -> verdict: equal canonical states must give equal verdicts
    let mut verdict_of: HashMap<u64, u64> = HashMap::new();
    let n = ncpu().clamp(1, 16);
    let exe = std::env::current_exe().unwrap();
    let mut children = vec![];
    let mut stdins = vec![];
    let mut readers = vec![];
    for _ in 0..n {
        let mut c = Command::new(&exe)
            .arg("C17")
            .arg("--tier")
            .arg(tier.name())
            .arg("lightworker")
            .arg(label)
            .stdin(Stdio::piped())
            .stdout(Stdio::piped())
            .stderr(Stdio::inherit())
            .spawn()
            .expect("spawn light worker");
        stdins.push(c.stdin.take().unwrap());
        readers.push(BufReader::new(c.stdout.take().unwrap()));
        children.push(c);
    }
    let res: Result<(), String> = (|| {
        // level 0: the two roots, expanded "as themselves"
        let mut frontier: Vec<Node1> = vec![];
        let mut pending_roots = vec![Node1 { root_on: true, history: vec![] }, Node1 { root_on: false, history: vec![] }];
        for depth in 0..=alpha.depth {
            let jobs: &Vec<Node1> = if depth == 0 { &pending_roots } else { &frontier };
            let mut next: Vec<Node1> = vec![];
            let mut merge_err: Option<String> = None;
            std::thread::scope(|sc| {
                for (w, stdin) in stdins.iter_mut().enumerate() {
                    sc.spawn(move || {
                        let mut i = w;
                        while i < jobs.len() {
                            if writeln!(stdin, "{}", serde_json::to_string(&(depth == 0, &jobs[i])).unwrap()).is_err() {
                                break;
                            }
                            i += n;
                        }
                        let _ = stdin.flush();
                    });
                }
                // one reader per worker drains its answers as they come, so that a slow worker does not
                // hold back the others; the merge below still consumes them in frontier order
                let mut answers = vec![];
                for (w, reader) in readers.iter_mut().enumerate() {
                    let (tx, rx) = std::sync::mpsc::channel::<String>();
                    answers.push(rx);
                    let expected = (jobs.len() + n - 1 - w) / n;
                    sc.spawn(move || {
                        for _ in 0..expected {
                            let mut line = String::new();
                            match reader.read_line(&mut line) {
                                Ok(0) | Err(_) => break,
                                Ok(_) => {
                                    if tx.send(line).is_err() {
                                        break;
                                    }
                                }
                            }
                        }
                    });
                }
                for (i, node) in jobs.iter().enumerate() {
                    let steps: Result<Vec<Step>, String> = match answers[i % n].recv() {
                        Err(_) => Err(format!("light worker {} stopped answering", i % n)),
                        Ok(line) => serde_json::from_str::<Result<Vec<Step>, String>>(&line)
                            .map_err(|e| format!("worker answer: {}", e))
                            .and_then(|r| r),
                    };
                    let steps = match steps {
                        Ok(s) => s,
                        Err(e) => {
                            merge_err = Some(format!("{} (state {:?})", e, node));
                            break;
                        }
                    };
                    for st in steps {
                        match st {
                            Step::Reached { ev, key, canon, verdict, nontrivial, summary, problems } => {
                                let mut history = node.history.clone();
                                if depth > 0 {
                                    out.transitions += 1;
                                    history.push(ev);
                                }
                                if let Some(prev) = verdict_of.insert(canon, verdict) {
                                    if prev != verdict {
                                        merge_err = Some(format!(
                                            "canonical form unsound: two worlds with the same canonical state give different search verdicts (history {:?})",
                                            history
                                        ));
                                        break;
                                    }
                                }
                                out.evaluations += 1;
                                out.states.insert(canon);
                                out.nontrivial.insert(nontrivial);
                                out.count(&summary);
                                for p in problems {
                                    out.violation(
                                        p.key,
                                        p.what,
                                        json!({"part": "light", "initial_model_indexed": node.root_on, "history": history}),
                                    );
                                }
                                if out.evaluations % 4001 == 7 {
                                    out.sample(json!({"initial_model_indexed": node.root_on, "history": history, "verdict": summary}));
                                }
                                if seen.insert(key) {
                                    next.push(Node1 { root_on: node.root_on, history });
                                }
                            }
                            Step::Refused { ev, in_scope, key, what } => {
                                out.transitions += 1;
                                let mut history = node.history.clone();
                                history.push(ev.clone());
                                if !in_scope {
                                    out.count(&format!("refused-while-not-indexed:{}", ev.kind()));
                                    continue;
                                }
                                out.count(&format!("refused:{}", ev.kind()));
                                out.nontrivial(&(ev.kind(), "refused"));
                                out.violation(key, what, json!({"part": "light", "initial_model_indexed": node.root_on, "history": history}));
                            }
                        }
                    }
                    if merge_err.is_some() {
                        break;
                    }
                }
                if merge_err.is_some() {
                    // unblock the feeders
                    for c in children.iter_mut() {
                        let _ = c.kill();
                    }
                }
            });
            if let Some(e) = merge_err {
                return Err(e);
            }
            if depth > 0 {
                out.outcomes.insert(format!("{}:level-{}-new-states", label, depth), next.len() as u64);
            } else {
                pending_roots = vec![];
            }
            frontier = next;
        }
        Ok(())
    })();
    drop(stdins);
    for mut c in children {
        if res.is_err() {
            let _ = c.kill();
        }
        let _ = c.wait();
    }
    if let Err(e) = res {
        out.machinery_errors.push(format!("light world ({}): {}", label, e));
    }
    out
}

/// re-run one recorded light-world history and print what search returns
fn replay_light(r: &Value) -> Result<Vec<String>, String> {
    let root_on = r["initial_model_indexed"].as_bool().ok_or("initial_model_indexed")?;
    let history: Vec<Ev> = serde_json::from_value(r["history"].clone()).map_err(|e| e.to_string())?;
    let mut lines = vec![];
    let mut w = World::root(root_on)?;
    let sq = SearchQ::new(&w.lp)?;
    for ev in &history {
        let before = w.sh.clone();
        match w.apply(ev) {
            Ok(()) => lines.push(format!("{:?}: ok", ev)),
            Err(e) => {
                lines.push(format!("{:?}: REFUSED {} [{}]", ev, e, cause_engine_error(ev, &before)));
                return Ok(lines);
            }
        }
    }
    let stored = w.stored_rows()?;
    for (rowid, _, texts) in &stored {
        lines.push(format!("row #{} text {:?}", rowid, texts));
    }
    lines.push(format!("model declares indexing: {}, engine indexes: {}", w.sh.declared_on, w.engine_indexes()));
    let (_, problems) = evaluate(&w, &sq, &stored)?;
    for probe in TOKENS.iter().chain(std::iter::once(&ABSENT)) {
        let got = sq.run(&w.lp.conn, probe);
        let rowids: Vec<i64> = match &got {
            Ok(ids) => ids
                .iter()
                .filter_map(|i| w.sh.rows.iter().find(|r| &uid_encode(&r.id) == i).map(|r| r.rowid))
                .collect(),
            Err(_) => vec![],
        };
        lines.push(format!("search(\"{}\") -> rows {:?} {}", probe, rowids, got.err().unwrap_or_default()));
    }
    for p in problems {
        lines.push(format!("PROBLEM {} :: {}", p.key, p.what));
    }
    Ok(lines)
}

fn replay(path: &str) -> i32 {
    let text = match std::fs::read_to_string(path) {
        Ok(t) => t,
        Err(e) => {
            eprintln!("machinery error: {}: {}", path, e);
            return 2;
        }
    };
    let v: Value = serde_json::from_str(&text).expect("json");
    let r = &v["replay"];
    let mut runs = vec![];
    for round in 0..2 {
        let lines = if r["part"] == "full" { c17_full::replay(r) } else { replay_light(r) };
        match lines {
            Ok(l) => {
                println!("--- replay round {}", round);
                for x in &l {
                    println!("{}", x);
                }
                runs.push(l);
            }
            Err(e) => {
                eprintln!("machinery error: {}", e);
                return 2;
            }
        }
    }
    if runs[0] != runs[1] {
        eprintln!("machinery error: the two replays differ");
        return 2;
    }
    0
}

pub fn run(args: &Args) -> i32 {
    if let Some(p) = &args.replay {
        let code = replay(p);
        quick_exit(code);
    }
    if args.extra.first().map(|x| x == "lightworker").unwrap_or(false) {
        discret::verif_hooks::set_uid_namespace(17);
        return light_worker(args.tier, args.extra.get(1).map(|s| s.as_str()).unwrap_or(""));
    }
    if args.extra.iter().any(|x| x == "bench") {
        bench();
        return 0;
    }
    let start = Instant::now();
    if let Some(shard) = args.shard {
        // worker process: its share of the full-world histories (own process = own clock)
        discret::verif_hooks::set_uid_namespace(1700 + shard.0 as u64);
        let out = c17_full::explore(args.tier, shard);
        emit_shard_outcome(&out);
        // the services' reader/writer threads are still alive: leave without running the C exit handlers
        // (OpenSSL/SQLCipher clean-up under live threads crashes now and then)
        quick_exit(0);
    }
    discret::verif_hooks::set_uid_namespace(17);
    // the full-world workers run beside the light-world explorer threads of this process
    let a2 = args.clone();
    let full = std::thread::spawn(move || run_sharded(&a2, SHARDS));
    let t0 = Instant::now();
    let mut out = Outcome::default();
    for (label, alpha) in passes(args.tier) {
        let t = Instant::now();
        out.merge(explore_light(args.tier, label, &alpha));
        if std::env::var("C17_TIMING").is_ok() {
            eprintln!("pass {} {:.1}s", label, t.elapsed().as_secs_f64());
        }
    }
    let light_s = t0.elapsed().as_secs_f64();
    match full.join() {
        Ok(f) => out.merge(f),
        Err(_) => out.machinery_errors.push("full-world workers panicked".into()),
    }
    if std::env::var("C17_TIMING").is_ok() {
        eprintln!("light {:.1}s, total {:.1}s", light_s, start.elapsed().as_secs_f64());
    }
    let pass_bounds: Vec<Value> = passes(args.tier)
        .iter()
        .map(|(l, a)| {
            json!({"pass": l, "depth": a.depth, "max_live_rows": a.max_rows, "events": a.events().len(),
                   "create_texts": a.create.len(), "update_values": a.set_vals.len(),
                   "deliver_new_texts": a.deliver_new.len(), "deliver_version_texts": a.deliver_version.len()})
        })
        .collect();
    let meta = CheckMeta {
        prop: "C17",
        level: "model_checking",
        rule: "E-STATE: breadth-first over every history of the listed events up to the depth bound on the real write/ingestion/query code (light world), oracle evaluated after every transition for aaa, bbb, ccc and an absent probe; states = distinct canonical states (live rows with rowid and text, logical content of the FTS index, its per-row sizes and totals record, declared/engine indexing flags); plus every full-world history (two real services, real pulls) up to its bound with the same oracle on both peers after every step; a case is non-trivial/distinct by (last event kind, per-probe expected/returned/missed/stale counts)".into(),
        bounds: json!({
            "tokens": TOKENS, "absent_probe": ABSENT, "initial_models": 2, "light_passes": pass_bounds,
            "full_world": c17_full::bounds(args.tier),
        }),
        assumptions: vec![
            "light world: rows without room on an in-memory connection prepared by the real prepare_connection; the index starts empty (the real service always holds a few indexed system rows, which only raises the size threshold of the engine error; the full-world part shows it on the real service with a long text)".into(),
            "a delivery is modelled as the puller does it: Node::filter_existing on the advertised identifier, json validation of add_nodes, WriteMessage::Nodes through the real batch function; signature and rights checks are not part of this property".into(),
            "two worlds with equal canonical state have equal futures for search: FTS5 answers depend on the logical index content, the per-row size table and the totals record, not on the segment layout (checked: equal canonical states never gave different verdicts)".into(),
            "the explorer threads share one strictly increasing harness clock (one millisecond per event); dates and identifiers are not part of the canonical state and nothing observed depends on their values".into(),
        ],
        exhaustive_claim: true,
    };
    out.traces_validated = out.outcomes.get("full:histories").copied().unwrap_or(0);
    finish(args, &meta, &out, start)
}

#[allow(dead_code)]
fn _unused(_: BTreeMap<u8, u8>) {}

/// micro-benchmark of the exploration primitives (`mc C17 bench`)
pub fn bench() {
    let n = 300;
    let t = Instant::now();
    for _ in 0..20 {
        let _ = World::root(true).unwrap();
    }
    eprintln!("root: {:.0} us", t.elapsed().as_micros() as f64 / 20.0);
    let mut base = World::root(true).unwrap();
    base.apply(&Ev::Create { a: 1, b: 2 }).unwrap();
    base.apply(&Ev::Create { a: 3, b: 0 }).unwrap();
    let sq = SearchQ::new(&base.lp).unwrap();
    let t = Instant::now();
    for _ in 0..n {
        let _ = base.snapshot().unwrap();
    }
    eprintln!("snapshot: {:.0} us", t.elapsed().as_micros() as f64 / n as f64);
    let t = Instant::now();
    for _ in 0..n {
        let c = Connection::open_in_memory().unwrap();
        drop(c);
    }
    eprintln!("open_in_memory: {:.0} us", t.elapsed().as_micros() as f64 / n as f64);
    let t = Instant::now();
    for _ in 0..n {
        let mut w = base.snapshot().unwrap();
        w.apply(&Ev::SetA { row: 0, v: 3 }).unwrap();
    }
    eprintln!("snapshot+update: {:.0} us", t.elapsed().as_micros() as f64 / n as f64);
    let t = Instant::now();
    for _ in 0..n {
        let w = base.snapshot().unwrap();
        let _ = w.stored_rows().unwrap();
    }
    eprintln!("snapshot+stored_rows: {:.0} us", t.elapsed().as_micros() as f64 / n as f64);
    let t = Instant::now();
    for _ in 0..n {
        let w = base.snapshot().unwrap();
        let st = w.stored_rows().unwrap();
        let _ = w.canonical(&st).unwrap();
    }
    eprintln!("snapshot+stored_rows+canonical: {:.0} us", t.elapsed().as_micros() as f64 / n as f64);
    let t = Instant::now();
    for _ in 0..n {
        let w = base.snapshot().unwrap();
        let st = w.stored_rows().unwrap();
        let _ = evaluate(&w, &sq, &st).unwrap();
    }
    eprintln!("snapshot+stored_rows+evaluate(4 searches): {:.0} us", t.elapsed().as_micros() as f64 / n as f64);
    let w = base.snapshot().unwrap();
    let st = w.stored_rows().unwrap();
    let t = Instant::now();
    for _ in 0..n {
        let _ = evaluate(&w, &sq, &st).unwrap();
    }
    eprintln!("evaluate warm: {:.0} us", t.elapsed().as_micros() as f64 / n as f64);
}

extern "C" {
    fn _exit(code: i32) -> !;
}
/// flush and terminate immediately
pub fn quick_exit(code: i32) -> ! {
    use std::io::Write;
    let _ = std::io::stdout().flush();
    let _ = std::io::stderr().flush();
    unsafe { _exit(code) }
}
