//! C19 — connections are trusted only after key proof; invites are single-use.
//!
//! Part A: bounded exhaustive enumeration of remote responder behaviours x meeting token types on the
//!         real `LocalPeerService::initialise_connection` (no database, tokio paused clock).
//! Part B: invitations on the real `PeerManager` (fake endpoint, real databases): see `c19_b.rs`.
//! Part C: meeting token symmetry / stability / distinctness for all ordered pairs of 64 key materials.
use crate::c19_b;
use crate::common::*;
use discret::verif::database::node::Node;
use discret::verif::database::system_entities::{AllowedPeer, Invite, OwnedInvite, Peer};
use discret::verif::network::peer_manager::TokenType;
use discret::verif::network::ConnectionInfo;
use discret::verif::peer_connection_service::{PeerConnectionMessage, PeerConnectionService};
use discret::verif::security::{
    base64_encode, derive_key, Ed25519SigningKey, MeetingSecret, SigningKey, Uid,
};
use discret::verif::synchronisation::peer_inbound_service::{LocalPeerService, QueryService};
use discret::verif::synchronisation::{
    Answer, Error as SyncError, IdentityAnswer, Query, QueryProtocol, RemoteEvent,
};
use serde::{Deserialize, Serialize};
use serde_json::{json, Value};
use std::sync::atomic::{AtomicBool, Ordering};
use std::sync::Arc;
use std::time::{Duration, Instant};
use tokio::sync::{mpsc, Mutex};

pub const APP: &str = "mc verif app";
pub const OTHER_APP: &str = "some other app";

// ------------------------------------------------------------------------------------------------
// Part A: alphabet
// ------------------------------------------------------------------------------------------------

#[derive(Clone, Copy, Debug, PartialEq, Eq, Hash, Serialize, Deserialize)]
pub enum Tok {
    /// allowed peer, expected key P1
    ApP1,
    /// allowed peer, expected key P2
    ApP2,
    /// allowed peer entry of the local identity (own device path)
    ApLocal,
    /// invitation created by the local peer: any proven key may consume it
    Owned,
    /// accepted invitation, signed by P1 for this application
    InvValid,
    /// accepted invitation, signed by P2 for this application
    InvByP2,
    /// accepted invitation with a garbage signature
    InvGarbage,
    /// accepted invitation naming this application but signed by P1 for another application
    InvOtherApp,
}
pub const TOKS: [Tok; 8] = [
    Tok::ApP1,
    Tok::ApP2,
    Tok::ApLocal,
    Tok::Owned,
    Tok::InvValid,
    Tok::InvByP2,
    Tok::InvGarbage,
    Tok::InvOtherApp,
];

/// identity the responder presents
#[derive(Clone, Copy, Debug, PartialEq, Eq, Hash, Serialize, Deserialize)]
pub enum Who {
    P1,
    P2,
    Local,
    Stranger,
}
pub const WHOS: [Who; 4] = [Who::P1, Who::P2, Who::Local, Who::Stranger];
impl Who {
    fn idx(&self) -> usize {
        match self {
            Who::P1 => 0,
            Who::P2 => 1,
            Who::Local => 2,
            Who::Stranger => 3,
        }
    }
}

/// how the challenge signature is produced
#[derive(Clone, Copy, Debug, PartialEq, Eq, Hash, Serialize, Deserialize)]
pub enum Proof {
    /// signature of this connection's challenge with the presented key
    Correct,
    /// the complete (valid) answer recorded on a previous connection of the same run
    Replayed,
    /// 64 arbitrary bytes
    Garbage,
    /// this connection's challenge signed with a different key than the presented one
    OtherKey,
    /// empty signature
    Empty,
}
pub const PROOFS: [Proof; 5] = [
    Proof::Correct,
    Proof::Replayed,
    Proof::Garbage,
    Proof::OtherKey,
    Proof::Empty,
];

/// shape of the sys.Peer row sent with the proof
#[derive(Clone, Copy, Debug, PartialEq, Eq, Hash, Serialize, Deserialize)]
pub enum Row {
    Good,
    /// entity of another system table, validly signed
    WrongEntity,
    EmptyEntity,
    /// a room identifier is set, validly signed
    RoomSet,
    /// `_json` is not JSON, signature covers it
    BadJson,
    /// `_json` is a JSON array
    JsonArray,
    JsonNone,
    /// JSON object without the meeting public key
    NoPubKey,
    PubKeyNotString,
    PubKeyNotBase64,
    /// verifying key removed from the row
    KeyEmpty,
    /// verifying key truncated to 32 bytes
    KeyShort,
    /// unknown key type flag
    KeyBadType,
    /// name changed after the row was signed
    AlteredAfterSigning,
    NoSignature,
}
pub const ROWS: [Row; 15] = [
    Row::Good,
    Row::WrongEntity,
    Row::EmptyEntity,
    Row::RoomSet,
    Row::BadJson,
    Row::JsonArray,
    Row::JsonNone,
    Row::NoPubKey,
    Row::PubKeyNotString,
    Row::PubKeyNotBase64,
    Row::KeyEmpty,
    Row::KeyShort,
    Row::KeyBadType,
    Row::AlteredAfterSigning,
    Row::NoSignature,
];

#[derive(Clone, Copy, Debug, PartialEq, Eq, Hash, Serialize, Deserialize)]
pub enum Transport {
    Answer,
    /// `success = false` with a serialised protocol error
    ErrorAnswer,
    /// `success = true` with bytes that are not an `IdentityAnswer`
    Unparsable,
    NoAnswer,
    /// the (otherwise unchanged) answer is sent 11 s after the query, i.e. after NETWORK_TIMEOUT
    Late,
    /// the answer carries another query identifier
    WrongId,
    /// the remote closes the streams instead of answering
    Closed,
    /// the remote answers but its event stream is already closed (Ready cannot be delivered)
    EventClosed,
}
pub const TRANSPORTS: [Transport; 8] = [
    Transport::Answer,
    Transport::ErrorAnswer,
    Transport::Unparsable,
    Transport::NoAnswer,
    Transport::Late,
    Transport::WrongId,
    Transport::Closed,
    Transport::EventClosed,
];

#[derive(Clone, Copy, Debug, PartialEq, Eq, Hash, Serialize, Deserialize)]
pub struct CaseA {
    pub tok: Tok,
    pub who: Who,
    pub proof: Proof,
    pub row: Row,
    pub transport: Transport,
}

/// simplest first: honest transport and good row first, then one deviation, then (thorough) products
pub fn cases_a(tier: Tier) -> Vec<CaseA> {
    let mut v = vec![];
    for &tok in &TOKS {
        for &who in &WHOS {
            for &proof in &PROOFS {
                match tier {
                    Tier::Quick => {
                        for &row in &ROWS {
                            v.push(CaseA { tok, who, proof, row, transport: Transport::Answer });
                        }
                        for &transport in &TRANSPORTS[1..] {
                            v.push(CaseA { tok, who, proof, row: Row::Good, transport });
                        }
                    }
                    Tier::Thorough => {
                        for &row in &ROWS {
                            for &transport in &TRANSPORTS {
                                v.push(CaseA { tok, who, proof, row, transport });
                            }
                        }
                    }
                }
            }
        }
    }
    v
}

// ------------------------------------------------------------------------------------------------
// Part A: fixtures (in-memory only)
// ------------------------------------------------------------------------------------------------

pub struct Fixtures {
    /// signing keys of P1, P2, Local, Stranger
    pub sk: Vec<Ed25519SigningKey>,
    pub vk: Vec<Vec<u8>>,
    /// base64 of the x25519 public keys
    pub meeting_pub: Vec<String>,
    pub peer_ids: Vec<Uid>,
    pub invite_id: Uid,
}

pub fn fixtures() -> Fixtures {
    let mut sk = vec![];
    let mut vk = vec![];
    let mut meeting_pub = vec![];
    let mut peer_ids = vec![];
    for i in 0..4u8 {
        let k = Ed25519SigningKey::create_from(&derive_key("mc c19 signing key", &[i]));
        vk.push(k.export_verifying_key());
        sk.push(k);
        let ms = MeetingSecret::new(derive_key("mc c19 meeting key", &[i]));
        meeting_pub.push(base64_encode(ms.public_key().as_bytes()));
        let mut id = [0u8; 16];
        id[0] = 0xC1;
        id[15] = i + 1;
        peer_ids.push(id);
    }
    let mut invite_id = [0x19u8; 16];
    invite_id[0] = 0x01;
    Fixtures { sk, vk, meeting_pub, peer_ids, invite_id }
}

fn manual_sign(node: &mut Node, key: &Ed25519SigningKey) {
    node.verifying_key = key.export_verifying_key();
    let h = node.hash().expect("node hash");
    node._signature = key.sign(h.as_bytes());
}

pub fn make_row(fx: &Fixtures, who: Who, row: Row) -> Node {
    let i = who.idx();
    let key = &fx.sk[i];
    let mut n = Peer::create(fx.peer_ids[i], fx.meeting_pub[i].clone());
    match row {
        Row::Good => manual_sign(&mut n, key),
        Row::WrongEntity => {
            n._entity = "0.5".to_string();
            manual_sign(&mut n, key);
        }
        Row::EmptyEntity => {
            n._entity = String::new();
            manual_sign(&mut n, key);
        }
        Row::RoomSet => {
            n.room_id = Some([9u8; 16]);
            manual_sign(&mut n, key);
        }
        Row::BadJson => {
            n._json = Some("{\"32\": not json".to_string());
            manual_sign(&mut n, key);
        }
        Row::JsonArray => {
            n._json = Some("[\"32\"]".to_string());
            manual_sign(&mut n, key);
        }
        Row::JsonNone => {
            n._json = None;
            manual_sign(&mut n, key);
        }
        Row::NoPubKey => {
            n._json = Some("{\"33\":\"\"}".to_string());
            manual_sign(&mut n, key);
        }
        Row::PubKeyNotString => {
            n._json = Some("{\"32\":5,\"33\":\"\"}".to_string());
            manual_sign(&mut n, key);
        }
        Row::PubKeyNotBase64 => {
            n._json = Some("{\"32\":\"***\",\"33\":\"\"}".to_string());
            manual_sign(&mut n, key);
        }
        Row::KeyEmpty => {
            manual_sign(&mut n, key);
            n.verifying_key = vec![];
        }
        Row::KeyShort => {
            manual_sign(&mut n, key);
            n.verifying_key.truncate(32);
        }
        Row::KeyBadType => {
            manual_sign(&mut n, key);
            n.verifying_key[0] = 9;
        }
        Row::AlteredAfterSigning => {
            manual_sign(&mut n, key);
            n._json = Some(format!("{{\"32\":\"{}\",\"33\":\"mallory\"}}", fx.meeting_pub[i]));
        }
        Row::NoSignature => {
            manual_sign(&mut n, key);
            n._signature = vec![];
        }
    }
    n
}

fn invite_hash(id: &Uid, app: &str) -> Vec<u8> {
    // written from the documentation of the invitation: blake3(invite id || application name)
    let mut h = blake3::Hasher::new();
    h.update(id);
    h.update(app.as_bytes());
    h.finalize().as_bytes().to_vec()
}

pub fn make_token(fx: &Fixtures, tok: Tok) -> TokenType {
    let ap = |who: Who| {
        let i = who.idx();
        TokenType::AllowedPeer(AllowedPeer {
            peer: Peer {
                id: base64_encode(&fx.peer_ids[i]),
                verifying_key: base64_encode(&fx.vk[i]),
            },
            meeting_token: base64_encode(&[1u8, 2, 3, 4, 5, 6, 7]),
        })
    };
    let inv = |sign: Vec<u8>| {
        TokenType::Invite(Invite {
            invite_id: fx.invite_id,
            application: APP.to_string(),
            invite_sign: sign,
        })
    };
    match tok {
        Tok::ApP1 => ap(Who::P1),
        Tok::ApP2 => ap(Who::P2),
        Tok::ApLocal => ap(Who::Local),
        Tok::Owned => TokenType::OwnedInvite(OwnedInvite {
            id: fx.invite_id,
            room: None,
            authorisation: None,
        }),
        Tok::InvValid => inv(fx.sk[0].sign(&invite_hash(&fx.invite_id, APP))),
        Tok::InvByP2 => inv(fx.sk[1].sign(&invite_hash(&fx.invite_id, APP))),
        Tok::InvGarbage => inv(vec![0x5a; 64]),
        Tok::InvOtherApp => inv(fx.sk[0].sign(&invite_hash(&fx.invite_id, OTHER_APP))),
    }
}

/// which presented identity the token type expects (the oracle's side of "the key the token expects")
pub fn key_expected(tok: Tok, who: Who) -> bool {
    match tok {
        Tok::ApP1 => who == Who::P1,
        Tok::ApP2 => who == Who::P2,
        Tok::ApLocal => who == Who::Local,
        Tok::Owned => true,
        Tok::InvValid => who == Who::P1,
        Tok::InvByP2 => who == Who::P2,
        Tok::InvGarbage | Tok::InvOtherApp => false,
    }
}

// ------------------------------------------------------------------------------------------------
// Part A: one connection on the real initialise_connection
// ------------------------------------------------------------------------------------------------

#[derive(Clone, Debug, PartialEq, Eq, Hash, Serialize, Deserialize)]
pub struct ObsA {
    /// ok_true | ok_false | err | panic
    pub ret: String,
    /// empty | presented | other
    pub bound: String,
    /// messages received by the (harness owned) peer connection service
    pub msgs: Vec<String>,
    /// events sent to the remote side
    pub events: Vec<String>,
    pub conn_ready: bool,
}

const CONN_ID: Uid = [0x77; 16];

enum RespMode {
    /// honest: sign the received challenge with `who`'s key, send `row`; record the serialised answer
    Honest,
    /// the behaviour of the case
    Case(Option<Vec<u8>>),
}

async fn connection(
    fx: &Fixtures,
    c: &CaseA,
    mode: RespMode,
    recorded: Arc<Mutex<Option<Vec<u8>>>>,
) -> ObsA {
    let (tx_q, mut rx_q) = mpsc::channel::<QueryProtocol>(8);
    let (tx_a, rx_a) = mpsc::channel::<Answer>(8);
    let query_service = QueryService::start(tx_q, rx_a);
    let (ps_tx, mut ps_rx) = mpsc::channel::<PeerConnectionMessage>(32);
    let peer_service = PeerConnectionService { sender: ps_tx };
    let (ev_tx, mut ev_rx) = mpsc::channel::<RemoteEvent>(8);
    let remote_key: Arc<Mutex<Vec<u8>>> = Arc::new(Mutex::new(Vec::new()));
    let conn_ready = Arc::new(AtomicBool::new(true));

    let honest = matches!(mode, RespMode::Honest);
    let replay_bytes = match mode {
        RespMode::Case(b) => b,
        RespMode::Honest => None,
    };
    let (proof, transport) = if honest {
        (Proof::Correct, Transport::Answer)
    } else {
        (c.proof, c.transport)
    };
    if transport == Transport::EventClosed {
        ev_rx.close();
    }

    // the remote responder
    let row = make_row(fx, c.who, c.row);
    let presented = row.verifying_key.clone();
    let who_i = c.who.idx();
    let other_i = if c.who == Who::Stranger { 0 } else { 3 };
    let sign_own = {
        let seed = derive_key("mc c19 signing key", &[who_i as u8]);
        Ed25519SigningKey::create_from(&seed)
    };
    let sign_other = {
        let seed = derive_key("mc c19 signing key", &[other_i as u8]);
        Ed25519SigningKey::create_from(&seed)
    };
    let rec = recorded.clone();
    let responder = tokio::spawn(async move {
        while let Some(q) = rx_q.recv().await {
            let Query::ProveIdentity(challenge) = q.query else {
                continue;
            };
            let sig = match proof {
                Proof::Correct | Proof::Replayed => sign_own.sign(&challenge),
                Proof::Garbage => vec![0x42; 64],
                Proof::OtherKey => sign_other.sign(&challenge),
                Proof::Empty => vec![],
            };
            let ans = IdentityAnswer { peer: row.clone(), chall_signature: sig };
            let mut bytes = bincode::serialize(&ans).unwrap();
            if honest {
                *rec.lock().await = Some(bytes.clone());
            }
            if proof == Proof::Replayed {
                bytes = replay_bytes.clone().expect("recorded answer");
            }
            match transport {
                Transport::Answer | Transport::EventClosed => {
                    let _ = tx_a
                        .send(Answer { id: q.id, success: true, complete: true, serialized: bytes })
                        .await;
                }
                Transport::ErrorAnswer => {
                    let e = bincode::serialize(&SyncError::Authorisation("no".to_string())).unwrap();
                    let _ = tx_a
                        .send(Answer { id: q.id, success: false, complete: true, serialized: e })
                        .await;
                }
                Transport::Unparsable => {
                    let _ = tx_a
                        .send(Answer { id: q.id, success: true, complete: true, serialized: vec![1, 2, 3] })
                        .await;
                }
                Transport::NoAnswer => {}
                Transport::Late => {
                    tokio::time::sleep(Duration::from_secs(11)).await;
                    let _ = tx_a
                        .send(Answer { id: q.id, success: true, complete: true, serialized: bytes })
                        .await;
                }
                Transport::WrongId => {
                    let _ = tx_a
                        .send(Answer { id: q.id + 7, success: true, complete: true, serialized: bytes })
                        .await;
                }
                Transport::Closed => {
                    return;
                }
            }
        }
    });

    let token = make_token(fx, c.tok);
    let local_key = fx.vk[Who::Local.idx()].clone();
    let info = ConnectionInfo {
        endpoint_id: [1u8; 16],
        remote_id: [2u8; 16],
        conn_id: CONN_ID,
        meeting_token: [1, 2, 3, 4, 5, 6, 7],
        // the key the remote DECLARED when it opened the connection: for an allowed-peer token it is the
        // expected key (the token type was resolved by matching it), whatever identity the answer then presents
        peer_verifying_key: match c.tok {
            Tok::ApP1 => fx.vk[Who::P1.idx()].clone(),
            Tok::ApP2 => fx.vk[Who::P2.idx()].clone(),
            Tok::ApLocal => fx.vk[Who::Local.idx()].clone(),
            _ => presented.clone(),
        },
    };
    let (rk, cr, qs, ps, ev) = (
        remote_key.clone(),
        conn_ready.clone(),
        query_service.clone(),
        peer_service.clone(),
        ev_tx.clone(),
    );
    let task = tokio::spawn(async move {
        LocalPeerService::initialise_connection(&info, &local_key, token, &cr, &qs, &rk, &ps, &ev).await
    });
    let ret = match task.await {
        Ok(Ok(true)) => "ok_true",
        Ok(Ok(false)) => "ok_false",
        Ok(Err(_)) => "err",
        Err(e) if e.is_panic() => "panic",
        Err(_) => "cancelled",
    }
    .to_string();
    // let a late answer arrive and be (not) processed; virtual time, costs nothing
    tokio::time::sleep(Duration::from_secs(25)).await;

    let mut msgs = vec![];
    while let Ok(m) = ps_rx.try_recv() {
        msgs.push(match m {
            PeerConnectionMessage::PeerConnected(k, conn) => format!(
                "connected({},{})",
                name_key(fx, &k, &presented),
                if conn == CONN_ID { "this_conn" } else { "other_conn" }
            ),
            PeerConnectionMessage::InviteAccepted(tt, node) => {
                let kind = match tt {
                    TokenType::AllowedPeer(_) => "allowed_peer".to_string(),
                    TokenType::OwnedInvite(o) => {
                        format!("owned:{}", if o.id == fx.invite_id { "this_invite" } else { "other" })
                    }
                    TokenType::Invite(i) => {
                        format!("invite:{}", if i.invite_id == fx.invite_id { "this_invite" } else { "other" })
                    }
                };
                format!("invite_accepted({},{})", kind, name_key(fx, &node.verifying_key, &presented))
            }
            PeerConnectionMessage::PeerDisconnected(..) => "disconnected".to_string(),
            PeerConnectionMessage::NewPeer(_) => "new_peer".to_string(),
            _ => "other".to_string(),
        });
    }
    let mut events = vec![];
    while let Ok(e) = ev_rx.try_recv() {
        events.push(
            match e {
                RemoteEvent::Ready => "Ready",
                RemoteEvent::ReadyFingerprint => "ReadyFingerprint",
                _ => "other",
            }
            .to_string(),
        );
    }
    let bound = {
        let k = remote_key.lock().await;
        if k.is_empty() {
            "empty"
        } else if *k == presented {
            "presented"
        } else {
            "other"
        }
    }
    .to_string();
    responder.abort();
    let _ = responder.await;
    drop(query_service);
    ObsA { ret, bound, msgs, events, conn_ready: conn_ready.load(Ordering::SeqCst) }
}

fn name_key(fx: &Fixtures, k: &[u8], presented: &[u8]) -> String {
    if k == presented {
        return "presented".to_string();
    }
    for (i, n) in ["P1", "P2", "Local", "Stranger"].iter().enumerate() {
        if fx.vk[i] == k {
            return n.to_string();
        }
    }
    "unknown".to_string()
}

pub async fn exec_a(fx: &Fixtures, c: &CaseA, transitions: &mut u64) -> ObsA {
    let recorded = Arc::new(Mutex::new(None));
    let mut replay = None;
    if c.proof == Proof::Replayed {
        // a previous connection of the same run on which the same responder answered honestly
        let _ = connection(fx, c, RespMode::Honest, recorded.clone()).await;
        *transitions += 1;
        replay = recorded.lock().await.clone();
        if replay.is_none() {
            // the honest connection panicked before recording: build the answer over an old challenge
            let row = make_row(fx, c.who, c.row);
            let ans = IdentityAnswer {
                peer: row,
                chall_signature: fx.sk[c.who.idx()].sign(&[0x11; 32]),
            };
            replay = Some(bincode::serialize(&ans).unwrap());
        }
    }
    *transitions += 1;
    connection(fx, c, RespMode::Case(replay), recorded).await
}

/// the oracle: what the statement allows, computed from the case parameters only
pub fn expected_a(c: &CaseA) -> Option<ObsA> {
    let proved = c.proof == Proof::Correct
        && c.row == Row::Good
        && matches!(c.transport, Transport::Answer | Transport::EventClosed)
        && key_expected(c.tok, c.who);
    if !proved {
        // nothing but a disconnect: `start` sends it for Ok(false) and Err (peer_inbound_service.rs:261-282)
        return Some(ObsA {
            ret: "refused".to_string(),
            bound: "empty".to_string(),
            msgs: vec![],
            events: vec![],
            conn_ready: true,
        });
    }
    if c.transport == Transport::EventClosed {
        // the proof is valid but readiness cannot be signalled: only soundness is decided
        return None;
    }
    let own_device = c.tok == Tok::ApLocal;
    let mut msgs = vec![];
    match c.tok {
        Tok::Owned => msgs.push("invite_accepted(owned:this_invite,presented)".to_string()),
        Tok::InvValid | Tok::InvByP2 => msgs.push("invite_accepted(invite:this_invite,presented)".to_string()),
        _ => {}
    }
    if !own_device {
        msgs.push("connected(presented,this_conn)".to_string());
    }
    Some(ObsA {
        ret: "ok_true".to_string(),
        bound: "presented".to_string(),
        msgs,
        events: vec![if own_device { "ReadyFingerprint" } else { "Ready" }.to_string()],
        conn_ready: !own_device,
    })
}

fn obs_short(o: &ObsA) -> String {
    format!(
        "{};bound={};msgs=[{}];events=[{}];ready={}",
        o.ret,
        o.bound,
        o.msgs.join(","),
        o.events.join(","),
        o.conn_ready
    )
}

/// returns (verdict label, Option<(key, what)>)
pub fn judge_a(c: &CaseA, o: &ObsA) -> (String, Option<(String, String)>) {
    let full = format!(
        "tok={:?},who={:?},proof={:?},row={:?},transport={:?}",
        c.tok, c.who, c.proof, c.row, c.transport
    );
    // finding keys abstract from what the decision cannot depend on: which of the two allowed peers,
    // which unexpected identity, and whether the readiness event can be delivered after a refusal
    let tok_kind = match c.tok {
        Tok::ApP1 | Tok::ApP2 => "allowed_peer",
        Tok::ApLocal => "own_device",
        Tok::Owned => "owned_invite",
        Tok::InvValid | Tok::InvByP2 => "invite_valid_sig",
        Tok::InvGarbage => "invite_garbage_sig",
        Tok::InvOtherApp => "invite_other_app_sig",
    };
    let transport_class = match c.transport {
        Transport::Answer | Transport::EventClosed => "delivered".to_string(),
        t => format!("{:?}", t),
    };
    let shape = format!(
        "tok={},key={},proof={:?},row={:?},transport={}",
        tok_kind,
        if key_expected(c.tok, c.who) { "expected" } else { "unexpected" },
        c.proof,
        c.row,
        transport_class
    );
    if o.ret == "panic" || o.ret == "cancelled" {
        // one defect whatever the token type: keyed by what the remote sent
        return (
            "panic".to_string(),
            Some((
                format!("A/panic/row={:?}", c.row),
                format!("initialise_connection panicked ({}): the connection task dies, no disconnect is sent", full),
            )),
        );
    }
    match expected_a(c) {
        Some(e) if e.ret == "refused" => {
            let refused = (o.ret == "ok_false" || o.ret == "err")
                && o.bound == "empty"
                && o.msgs.is_empty()
                && o.events.is_empty()
                && o.conn_ready;
            if refused {
                (format!("refused:{}", o.ret), None)
            } else {
                (
                    "granted_without_proof".to_string(),
                    Some((
                        format!("A/granted_without_proof/{}/got={}", shape, obs_short(o)),
                        format!("the remote did not prove the expected key on this connection's challenge ({}) but observed {}", full, obs_short(o)),
                    )),
                )
            }
        }
        Some(e) => {
            if *o == e {
                (format!("accepted:{}", if c.tok == Tok::ApLocal { "own_device" } else { "peer" }), None)
            } else {
                (
                    "proved_but_not_trusted".to_string(),
                    Some((
                        format!("A/proved_but_not_trusted/{}/got={}", shape, obs_short(o)),
                        format!("the remote proved the expected key ({}); expected {} observed {}", full, obs_short(&e), obs_short(o)),
                    )),
                )
            }
        }
        None => {
            // EventClosed with a valid proof: must not be reported as a ready connection
            if o.ret == "ok_true" {
                (
                    "ready_without_event".to_string(),
                    Some((
                        format!("A/ready_without_event/{}/got={}", shape, obs_short(o)),
                        "Ok(true) although the readiness event could not be delivered".to_string(),
                    )),
                )
            } else {
                (format!("proved_event_closed:{}", o.ret), None)
            }
        }
    }
}

pub fn paused_runtime() -> tokio::runtime::Runtime {
    tokio::runtime::Builder::new_current_thread()
        .enable_all()
        .start_paused(true)
        .build()
        .unwrap()
}

fn run_part_a(cases: &[(usize, CaseA)], out: &mut Outcome) {
    let fx = fixtures();
    let rt = paused_runtime();
    rt.block_on(async {
        for (idx, c) in cases {
            let mut tr = 0;
            let o = exec_a(&fx, c, &mut tr).await;
            out.transitions += tr;
            out.evaluations += 1;
            let (label, viol) = judge_a(c, &o);
            out.count(&format!("A:{}", label));
            out.state(&("A", c.tok, c.who, c.proof, c.row, c.transport, &o));
            out.nontrivial(&("A", c.tok, &o));
            if *idx == 0 || idx % 977 == 0 {
                out.sample(json!({"part":"A","index":idx,"case":c,"observed":o}));
            }
            if let Some((key, what)) = viol {
                out.violation(key, what, json!({"part":"A","case":c}));
            }
        }
    });
}

// ------------------------------------------------------------------------------------------------
// Part C: meeting tokens
// ------------------------------------------------------------------------------------------------

pub fn materials() -> Vec<(String, [u8; 32])> {
    let mut v: Vec<(String, [u8; 32])> = vec![];
    v.push(("zero".into(), [0u8; 32]));
    v.push(("ones".into(), [0xff; 32]));
    let mut one = [0u8; 32];
    one[0] = 1;
    v.push(("one".into(), one)); // equal to zero after clamping
    let mut eight = [0u8; 32];
    eight[0] = 8;
    v.push(("eight".into(), eight));
    let mut top = [0u8; 32];
    top[31] = 0x80;
    v.push(("top_bit".into(), top)); // equal to zero after clamping
    let mut b254 = [0u8; 32];
    b254[31] = 0x40;
    v.push(("bit254".into(), b254)); // equal to zero after clamping (bit 254 is forced to 1)
    let mut lo = [0xffu8; 32];
    lo[0] = 0xf8;
    lo[31] = 0x7f;
    v.push(("ones_clamped".into(), lo)); // equal to ones after clamping
    let base = derive_key("mc c19 material", &[200]);
    v.push(("base".into(), base));
    for bit in 0..3 {
        let mut m = base;
        m[0] ^= 1 << bit;
        v.push((format!("base^bit{}", bit), m)); // same scalar as base
    }
    let mut m = base;
    m[31] ^= 0x80;
    v.push(("base^bit255".into(), m)); // same scalar as base
    let mut m = base;
    m[0] ^= 0x08;
    v.push(("base^bit3".into(), m)); // different scalar
    let mut m = base;
    m[31] ^= 0x20;
    v.push(("base^bit253".into(), m)); // different scalar
    // small scalars and byte patterns
    for (n, b) in [("x55", 0x55u8), ("xaa", 0xaa), ("x7f", 0x7f), ("x80", 0x80)] {
        v.push((n.into(), [b; 32]));
    }
    let mut i = 0u8;
    while v.len() < 64 {
        v.push((format!("derived{}", i), derive_key("mc c19 material", &[i])));
        i += 1;
    }
    v
}

fn run_part_c(out: &mut Outcome) {
    let mats = materials();
    let n = mats.len();
    let secrets: Vec<MeetingSecret> = mats.iter().map(|m| MeetingSecret::new(m.1)).collect();
    let pubs: Vec<[u8; 32]> = secrets.iter().map(|s| *s.public_key().as_bytes()).collect();
    // class = index of the first material with the same public key
    let class: Vec<usize> = (0..n).map(|i| (0..n).find(|&j| pubs[j] == pubs[i]).unwrap()).collect();
    let mut tok = vec![vec![[0u8; 7]; n]; n];
    for a in 0..n {
        for b in 0..n {
            tok[a][b] = secrets[a].token(&secrets[b].public_key());
            out.transitions += 1;
        }
    }
    // stability: a second derivation from fresh objects
    for a in 0..n {
        for b in 0..n {
            out.evaluations += 1;
            let s2 = MeetingSecret::new(mats[a].1);
            let p2 = MeetingSecret::new(mats[b].1).public_key();
            let again = s2.token(&p2);
            if again != tok[a][b] {
                out.violation(
                    format!("C/unstable/{}", if a == b { "self" } else { "pair" }),
                    format!("token({},{}) differs between two derivations", mats[a].0, mats[b].0),
                    json!({"part":"C","a":a,"b":b}),
                );
                out.count("C:unstable");
            }
            let rel = if a == b {
                "self"
            } else if class[a] == class[b] {
                "same_public_key"
            } else {
                "distinct_keys"
            };
            if tok[a][b] == tok[b][a] {
                out.count(&format!("C:symmetric:{}", rel));
            } else {
                out.count(&format!("C:asymmetric:{}", rel));
                out.violation(
                    format!("C/asymmetric/{}", rel),
                    format!(
                        "token({a},{b}) = {} but token({b},{a}) = {} ({})",
                        hex::encode(tok[a][b]),
                        hex::encode(tok[b][a]),
                        if rel == "same_public_key" {
                            "materials differ only in bits removed by X25519 clamping: same public key, the same-user branch hashes the unclamped secret"
                        } else {
                            "distinct public keys"
                        },
                        a = mats[a].0,
                        b = mats[b].0
                    ),
                    json!({"part":"C","a":a,"b":b}),
                );
            }
            out.state(&("C", rel, tok[a][b] == tok[b][a]));
            out.nontrivial(&("C", rel, tok[a][b] == tok[b][a]));
        }
    }
    // distinctness over unordered pairs of distinct public keys (self pairs included)
    let mut seen: std::collections::BTreeMap<[u8; 7], (usize, usize)> = Default::default();
    let mut pairs = 0u64;
    for a in 0..n {
        for b in a..n {
            if class[a] != a || class[b] != b {
                continue; // representative materials only
            }
            pairs += 1;
            out.evaluations += 1;
            if let Some(&(x, y)) = seen.get(&tok[a][b]) {
                let p = (pairs as f64) * (pairs as f64) / 2.0 / 2f64.powi(56);
                out.count("C:collision");
                out.notes.push(format!(
                    "C: token collision between pairs ({},{}) and ({},{}); probability of any collision among {} random pairs of 7-byte tokens is about {:.2e}",
                    mats[x].0, mats[y].0, mats[a].0, mats[b].0, pairs, p
                ));
                out.violation(
                    "C/collision/distinct_pairs".to_string(),
                    format!("pairs ({},{}) and ({},{}) derive the same token", mats[x].0, mats[y].0, mats[a].0, mats[b].0),
                    json!({"part":"C","a":a,"b":b,"x":x,"y":y}),
                );
            } else {
                seen.insert(tok[a][b], (a, b));
                out.count("C:distinct");
            }
        }
    }
    let classes = class.iter().enumerate().filter(|(i, c)| i == *c).count();
    out.notes.push(format!(
        "C: {} key materials, {} distinct public keys, {} unordered pairs (with self pairs) checked for distinct tokens",
        n, classes, pairs
    ));
    out.sample(json!({"part":"C","materials":n,"distinct_public_keys":classes,"pairs":pairs,
        "token(zero,ones)":hex::encode(tok[0][1]),"token(ones,zero)":hex::encode(tok[1][0])}));
}

// ------------------------------------------------------------------------------------------------
// jobs, sharding, replay
// ------------------------------------------------------------------------------------------------

#[derive(Clone, Debug)]
enum Job {
    A(Vec<(usize, CaseA)>),
    C,
    B(c19_b::JobB),
}

/// Jobs of shard `i` of `n`: every kind of job is cut in `n` contiguous blocks, so that the merge order of
/// the shards is the simplest-first enumeration order (the first witness of a finding key is the simplest).
fn jobs(tier: Tier, i: usize, n: usize) -> Vec<Job> {
    fn block<T: Clone>(v: &[T], i: usize, n: usize) -> Vec<T> {
        let per = (v.len() + n - 1) / n.max(1);
        v.iter().skip(i * per).take(per).cloned().collect()
    }
    let mut mine = vec![];
    if i == 0 {
        mine.push(Job::C);
    }
    let cases: Vec<(usize, CaseA)> = cases_a(tier).into_iter().enumerate().collect();
    mine.push(Job::A(block(&cases, i, n)));
    let b = c19_b::jobs_b(tier);
    let sched: Vec<c19_b::JobB> = b.iter().filter(|j| matches!(j, c19_b::JobB::Sched(..))).cloned().collect();
    let corrupt: Vec<c19_b::JobB> = b.iter().filter(|j| matches!(j, c19_b::JobB::Corrupt(..))).cloned().collect();
    mine.extend(block(&sched, i, n).into_iter().map(Job::B));
    mine.extend(block(&corrupt, i, n).into_iter().map(Job::B));
    if i == n - 1 {
        mine.push(Job::B(c19_b::JobB::Misc));
    }
    mine
}

fn replay(path: &str) -> i32 {
    let text = std::fs::read_to_string(path).expect("replay file");
    let v: Value = serde_json::from_str(&text).expect("json");
    let r = if v.get("replay").is_some() { v["replay"].clone() } else { v };
    silence_panics();
    match r["part"].as_str() {
        Some("A") => {
            let c: CaseA = serde_json::from_value(r["case"].clone()).expect("case");
            let fx = fixtures();
            let mut seen = vec![];
            for round in 0..2 {
                let rt = paused_runtime();
                let mut tr = 0;
                let o = rt.block_on(exec_a(&fx, &c, &mut tr));
                let (label, viol) = judge_a(&c, &o);
                println!("replay round {}: case={:?}", round, c);
                println!("  observed: {}", obs_short(&o));
                println!("  oracle: {:?}", expected_a(&c).map(|e| obs_short(&e)));
                println!("  verdict: {} {:?}", label, viol.map(|v| v.0));
                seen.push(o);
            }
            if seen[0] != seen[1] {
                eprintln!("machinery error: replay divergence");
                return 2;
            }
            0
        }
        Some("C") => {
            let mats = materials();
            let a = r["a"].as_u64().unwrap() as usize;
            let b = r["b"].as_u64().unwrap() as usize;
            for round in 0..2 {
                let sa = MeetingSecret::new(mats[a].1);
                let sb = MeetingSecret::new(mats[b].1);
                println!(
                    "replay round {}: {}={} {}={} pub_a={} pub_b={} token(a,b)={} token(b,a)={}",
                    round,
                    mats[a].0,
                    hex::encode(mats[a].1),
                    mats[b].0,
                    hex::encode(mats[b].1),
                    hex::encode(sa.public_key().as_bytes()),
                    hex::encode(sb.public_key().as_bytes()),
                    hex::encode(sa.token(&sb.public_key())),
                    hex::encode(sb.token(&sa.public_key()))
                );
            }
            0
        }
        Some("B") => c19_b::replay_b(&r),
        _ => {
            eprintln!("machinery error: unknown replay part");
            2
        }
    }
}

pub fn silence_panics() {
    std::panic::set_hook(Box::new(|info| {
        // the panics provoked inside the code under test are observations, not harness failures
        let loc = info.location().map(|l| l.file().to_string()).unwrap_or_default();
        if !loc.contains("/src/security.rs") && !loc.contains("discret") {
            eprintln!("panic: {}", info);
        }
    }));
}

pub fn run(args: &Args) -> i32 {
    if let Some(p) = &args.replay {
        return replay(p);
    }
    let start = Instant::now();
    if let Some((i, n)) = args.shard {
        silence_panics();
        let mut out = Outcome::default();
        let mine = jobs(args.tier, i, n);
        let mut bjobs = vec![];
        for j in &mine {
            match j {
                Job::A(cases) => run_part_a(cases, &mut out),
                Job::C => run_part_c(&mut out),
                Job::B(b) => bjobs.push(b.clone()),
            }
        }
        if !bjobs.is_empty() {
            c19_b::run_jobs_b(&bjobs, &mut out);
        }
        // the runtimes are dropped here; give the database and verification OS threads of the dropped
        // peers time to close their connections before exit() runs the C library's exit handlers
        // (an exit racing with a closing SQLCipher connection aborts the process)
        std::thread::sleep(Duration::from_millis(250));
        emit_shard_outcome(&out);
        return 0;
    }
    let mut out = run_sharded(args, ncpu().min(16));
    // parts B runs on the full service; parts A and C call the implementation directly
    out.traces_validated = out.evaluations;
    let na = cases_a(args.tier).len();
    let meta = CheckMeta {
        prop: "C19",
        level: "model_checking",
        rule: "E-SHAPE (A): every token type x presented identity x proof mode x peer row shape x transport behaviour on the real initialise_connection, oracle computed from the case parameters; E-SCHED (B): every interleaving of the open/handshake/consumption steps of 2 (thorough: 3) connections using one invitation on the real PeerManager, on both sides, plus every single byte corruption (quick: every bit flip) and truncation of the invitation bytes; E-SHAPE (C): all ordered pairs of 64 key materials. states = distinct (case, observation); non trivial = distinct (token type | schedule class | corrupted field | key relation, observation)".into(),
        bounds: json!({
            "A": {"token_types": TOKS.len(), "identities": WHOS.len(), "proof_modes": PROOFS.len(), "rows": ROWS.len(), "transports": TRANSPORTS.len(), "cases": na,
                   "product": args.tier.pick("rows x {answer} + {good row} x transports", "full product")},
            "B": c19_b::bounds_b(args.tier),
            "C": {"materials": 64, "ordered_pairs": 4096},
        }),
        assumptions: vec![
            "A: the harness stands for the QUIC streams: a QueryProtocol/Answer/RemoteEvent channel per connection; disconnect is sent by LocalPeerService::start for Ok(false)/Err of initialise_connection (lines 261-282, read, not executed)".into(),
            "A: Ed25519 is unforgeable: a signature by another key, over another challenge or made of arbitrary bytes stands for every answer of a remote that does not hold the key".into(),
            "A: the 10 s network timeout is crossed with tokio's paused clock (no database or OS thread involved)".into(),
            "B: the endpoint is a DiscretEndpoint value whose channel nobody reads (no socket); the PeerConnectionService actor loop is played by the harness (one message at a time, as the real loop does) calling the real PeerManager methods".into(),
            "B: the honest remote side is the real InboundQueryService::process_inbound over the remote peer's real database".into(),
            "C: pairs are compared through the public keys x25519-dalek derives; materials with the same public key form one identity for the distinctness clause".into(),
        ],
        exhaustive_claim: true,
    };
    finish(args, &meta, &out, start)
}
