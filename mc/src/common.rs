//! Shared plumbing: command line, evidence files, known findings, sharded execution.
use serde::{Deserialize, Serialize};
use serde_json::{json, Value};
use std::collections::{BTreeMap, BTreeSet};
use std::io::Write;
use std::path::PathBuf;
use std::time::Instant;

/// root for evidence/, replays/ and known_findings.json (MC_VERIF_DIR overrides, for scratch copies)
pub fn verif_dir() -> String {
    std::env::var("MC_VERIF_DIR").unwrap_or_else(|_| "/verif".to_string())
}

#[derive(Clone, Copy, PartialEq, Eq, Debug)]
pub enum Tier {
    Quick,
    Thorough,
}
impl Tier {
    pub fn name(&self) -> &'static str {
        match self {
            Tier::Quick => "quick",
            Tier::Thorough => "thorough",
        }
    }
    pub fn pick<T>(&self, q: T, t: T) -> T {
        match self {
            Tier::Quick => q,
            Tier::Thorough => t,
        }
    }
}

#[derive(Clone, Debug)]
pub struct Args {
    pub prop: String,
    pub tier: Tier,
    pub seed: i64,
    /// Some((i, n)) when running as a worker of a sharded check
    pub shard: Option<(usize, usize)>,
    pub replay: Option<String>,
    pub extra: Vec<String>,
}

pub fn parse_args() -> Args {
    let argv: Vec<String> = std::env::args().collect();
    if argv.len() < 2 {
        eprintln!("usage: mc <property> [--tier quick|thorough] [--shard i/n] [--replay file]");
        std::process::exit(2);
    }
    let mut a = Args {
        prop: argv[1].clone(),
        tier: match std::env::var("VERIF_TIER").ok().as_deref() {
            Some("thorough") => Tier::Thorough,
            _ => Tier::Quick,
        },
        seed: std::env::var("VERIF_SEED")
            .ok()
            .and_then(|s| s.parse().ok())
            .unwrap_or(0),
        shard: None,
        replay: None,
        extra: vec![],
    };
    let mut i = 2;
    while i < argv.len() {
        match argv[i].as_str() {
            "--tier" => {
                i += 1;
                a.tier = if argv[i] == "thorough" {
                    Tier::Thorough
                } else {
                    Tier::Quick
                };
            }
            "--shard" => {
                i += 1;
                let p: Vec<&str> = argv[i].split('/').collect();
                a.shard = Some((p[0].parse().unwrap(), p[1].parse().unwrap()));
            }
            "--replay" => {
                i += 1;
                a.replay = Some(argv[i].clone());
            }
            other => a.extra.push(other.to_string()),
        }
        i += 1;
    }
    a
}

/// One reported problem. `key` is the fine grained, id free signature matched against known_findings.json
#[derive(Clone, Debug, Serialize, Deserialize)]
pub struct Violation {
    pub key: String,
    pub what: String,
    /// everything needed to re-run the case
    pub replay: Value,
}

/// What a check (or one shard of it) produced.
#[derive(Clone, Debug, Default, Serialize, Deserialize)]
pub struct Outcome {
    /// cases / executions / oracle evaluations
    pub evaluations: u64,
    /// real steps executed (handler calls, phase calls, protocol answers)
    pub transitions: u64,
    /// hashes of distinct canonical states / end states / (input class, outcome) pairs
    pub states: BTreeSet<u64>,
    /// hashes of distinct non trivial cases (rule given in the evidence)
    pub nontrivial: BTreeSet<u64>,
    /// traces re-executed on the full service and found equal
    pub traces_validated: u64,
    /// histogram of verdicts/outcomes
    pub outcomes: BTreeMap<String, u64>,
    pub violations: Vec<Violation>,
    pub samples: Vec<Value>,
    /// false as soon as any cap was hit
    pub capped: Vec<String>,
    pub notes: Vec<String>,
    /// machinery failure (never a verdict)
    pub machinery_errors: Vec<String>,
}
impl Outcome {
    pub fn merge(&mut self, o: Outcome) {
        self.evaluations += o.evaluations;
        self.transitions += o.transitions;
        self.states.extend(o.states);
        self.nontrivial.extend(o.nontrivial);
        self.traces_validated += o.traces_validated;
        for (k, v) in o.outcomes {
            *self.outcomes.entry(k).or_insert(0) += v;
        }
        for v in o.violations {
            if !self.violations.iter().any(|x| x.key == v.key) {
                self.violations.push(v);
            }
        }
        for s in o.samples {
            if self.samples.len() < 12 {
                self.samples.push(s);
            }
        }
        self.capped.extend(o.capped);
        for n in o.notes {
            if !self.notes.contains(&n) {
                self.notes.push(n);
            }
        }
        self.machinery_errors.extend(o.machinery_errors);
    }
    pub fn count(&mut self, outcome: &str) {
        *self.outcomes.entry(outcome.to_string()).or_insert(0) += 1;
    }
    pub fn state<T: std::hash::Hash>(&mut self, t: &T) -> bool {
        self.states.insert(hash64(t))
    }
    pub fn nontrivial<T: std::hash::Hash>(&mut self, t: &T) -> bool {
        self.nontrivial.insert(hash64(t))
    }
    pub fn sample(&mut self, v: Value) {
        if self.samples.len() < 8 {
            self.samples.push(v);
        }
    }
    pub fn violation(&mut self, key: impl Into<String>, what: impl Into<String>, replay: Value) {
        let key = key.into();
        // keep the first (simplest first enumeration) witness per key, count the rest
        *self.outcomes.entry(format!("viol:{}", key)).or_insert(0) += 1;
        if !self.violations.iter().any(|v| v.key == key) {
            self.violations.push(Violation {
                key,
                what: what.into(),
                replay,
            });
        }
    }
}

/// deterministic 64 bit hash (std's SipHash with fixed keys)
pub fn hash64<T: std::hash::Hash>(t: &T) -> u64 {
    use std::hash::Hasher;
    #[allow(deprecated)]
    let mut h = std::hash::SipHasher::new_with_keys(0x5eed, 0xd15c);
    t.hash(&mut h);
    h.finish()
}

#[derive(Deserialize, Debug, Clone)]
pub struct KnownFinding {
    pub property: String,
    pub key: String,
    /// "known" suppresses the violation (KNOWN-FINDING line); "fixed" suppresses nothing
    pub status: String,
    #[serde(default)]
    pub commit: Option<String>,
    pub what: String,
}

pub fn load_known(prop: &str) -> Vec<KnownFinding> {
    let path = format!("{}/known_findings.json", verif_dir());
    let Ok(text) = std::fs::read_to_string(&path) else {
        return vec![];
    };
    let v: Value = match serde_json::from_str(&text) {
        Ok(v) => v,
        Err(e) => {
            eprintln!("machinery: cannot parse {}: {}", path, e);
            std::process::exit(2);
        }
    };
    let mut res = vec![];
    if let Some(arr) = v.get("findings").and_then(|f| f.as_array()) {
        for f in arr {
            if let Ok(k) = serde_json::from_value::<KnownFinding>(f.clone()) {
                if k.property == prop {
                    res.push(k);
                }
            }
        }
    }
    res
}

pub struct CheckMeta {
    pub prop: &'static str,
    /// level category of MANIFEST.json
    pub level: &'static str,
    /// how cases are enumerated and what makes one distinct / non trivial
    pub rule: String,
    pub bounds: Value,
    pub assumptions: Vec<String>,
    pub exhaustive_claim: bool,
}

fn sanitize(key: &str) -> String {
    let s: String = key
        .chars()
        .map(|c| {
            if c.is_ascii_alphanumeric() || c == '-' || c == '_' || c == '.' {
                c
            } else {
                '_'
            }
        })
        .collect();
    if s.len() > 120 {
        format!("{}_{:x}", &s[0..100], hash64(&key))
    } else {
        s
    }
}

/// write the evidence file, print KNOWN-FINDING / VIOLATION lines, return the exit code
pub fn finish(args: &Args, meta: &CheckMeta, out: &Outcome, start: Instant) -> i32 {
    let known = load_known(meta.prop);
    let mut known_hits: BTreeMap<String, u64> = BTreeMap::new();
    let mut new_violations = vec![];
    for v in &out.violations {
        let n = out
            .outcomes
            .get(&format!("viol:{}", v.key))
            .copied()
            .unwrap_or(1);
        if let Some(k) = known
            .iter()
            .find(|k| k.status == "known" && k.key == v.key)
        {
            known_hits.insert(v.key.clone(), n);
            println!(
                "KNOWN-FINDING: property={} key={} {} ({} enumerated cases)",
                meta.prop, v.key, k.what, n
            );
        } else {
            new_violations.push(v.clone());
        }
    }
    for k in known.iter().filter(|k| k.status == "known") {
        if !known_hits.contains_key(&k.key) {
            println!(
                "note: known finding not reproduced at this tier: property={} key={}",
                meta.prop, k.key
            );
        }
    }

    let mut code = 0;
    let replay_dir = format!("{}/replays/{}", verif_dir(), meta.prop);
    // replay files describe this run only
    let _ = std::fs::remove_dir_all(&replay_dir);
    for v in &new_violations {
        let _ = std::fs::create_dir_all(&replay_dir);
        let path = format!("{}/{}.json", replay_dir, sanitize(&v.key));
        let body = json!({"property": meta.prop, "key": v.key, "what": v.what, "tier": args.tier.name(), "replay": v.replay});
        let _ = std::fs::write(&path, serde_json::to_string_pretty(&body).unwrap());
        println!("VIOLATION property={} replay={}", meta.prop, path);
        println!("  key={} :: {}", v.key, v.what);
        code = 1;
    }
    if !out.machinery_errors.is_empty() {
        for e in &out.machinery_errors {
            eprintln!("machinery error: {}", e);
        }
        if code == 0 {
            code = 2;
        }
    }
    // vacuity guard
    if out.nontrivial.len() < 2 && code == 0 {
        eprintln!(
            "machinery error: vacuous run, {} distinct non-trivial cases",
            out.nontrivial.len()
        );
        code = 2;
    }

    let exhaustive = meta.exhaustive_claim && out.capped.is_empty();
    let mut hist = serde_json::Map::new();
    for (k, v) in &out.outcomes {
        hist.insert(k.clone(), json!(v));
    }
    let mut samples = out.samples.clone();
    if samples.is_empty() {
        samples.push(json!("no sample recorded"));
    }
    let ev = json!({
        "property_id": meta.prop,
        "tier": args.tier.name(),
        "seed": args.seed,
        "level": meta.level,
        "coverage": {
            "evaluations": out.evaluations,
            "distinct_nontrivial": out.nontrivial.len(),
            "rule": meta.rule,
            "samples": samples,
            "states": out.states.len(),
            "transitions": out.transitions,
            "traces_validated_against_impl": out.traces_validated,
            "exhaustive": exhaustive,
            "caps_hit": out.capped,
            "bounds": meta.bounds,
            "outcomes": Value::Object(hist),
            "known_hits": known_hits,
            "notes": out.notes,
        },
        "assumptions": meta.assumptions,
        "wall_s": start.elapsed().as_secs_f64(),
        "violations": new_violations.len(),
    });
    let _ = std::fs::create_dir_all(format!("{}/evidence", verif_dir()));
    let path = format!("{}/evidence/{}.json", verif_dir(), meta.prop);
    if let Err(e) = std::fs::write(&path, serde_json::to_string_pretty(&ev).unwrap()) {
        eprintln!("machinery error: cannot write {}: {}", path, e);
        if code == 0 {
            code = 2;
        }
    }
    println!(
        "{} {}: evaluations={} states={} transitions={} nontrivial={} validated={} new_violations={} known={} exhaustive={} wall={:.1}s",
        meta.prop,
        args.tier.name(),
        out.evaluations,
        out.states.len(),
        out.transitions,
        out.nontrivial.len(),
        out.traces_validated,
        new_violations.len(),
        known_hits.len(),
        exhaustive,
        start.elapsed().as_secs_f64()
    );
    code
}

/// Run `n` worker processes of this same binary (`--shard i/n`), each printing one JSON `Outcome`
/// on its last stdout line prefixed by `OUTCOME `, and merge them in shard order.
pub fn run_sharded(args: &Args, n: usize) -> Outcome {
    let exe = std::env::current_exe().unwrap();
    let mut children = vec![];
    for i in 0..n {
        let mut cmd = std::process::Command::new(&exe);
        cmd.arg(&args.prop)
            .arg("--tier")
            .arg(args.tier.name())
            .arg("--shard")
            .arg(format!("{}/{}", i, n))
            .args(&args.extra)
            .env("VERIF_SEED", args.seed.to_string())
            .stdout(std::process::Stdio::piped())
            .stderr(std::process::Stdio::inherit());
        children.push(cmd.spawn().expect("spawn worker"));
    }
    let mut merged = Outcome::default();
    for (i, c) in children.into_iter().enumerate() {
        let out = c.wait_with_output().expect("worker wait");
        let text = String::from_utf8_lossy(&out.stdout).to_string();
        let mut found = false;
        for line in text.lines() {
            if let Some(j) = line.strip_prefix("OUTCOME ") {
                match serde_json::from_str::<Outcome>(j) {
                    Ok(o) => {
                        merged.merge(o);
                        found = true;
                    }
                    Err(e) => merged
                        .machinery_errors
                        .push(format!("shard {} unparsable outcome: {}", i, e)),
                }
            }
        }
        if found && !out.status.success() {
            // the outcome line is the worker's last action: a crash while the process exits does not taint it
            merged.notes.push(format!("shard {} ended with {:?} after reporting its outcome", i, out.status));
        }
        if !found {
            merged.machinery_errors.push(format!(
                "shard {}/{} failed: status {:?}, tail: {}",
                i,
                n,
                out.status,
                text.lines()
                    .rev()
                    .filter(|l| !l.starts_with("OUTCOME "))
                    .take(5)
                    .collect::<Vec<_>>()
                    .join(" | ")
            ));
        }
    }
    merged
}

pub fn emit_shard_outcome(o: &Outcome) {
    let mut so = std::io::stdout().lock();
    let _ = writeln!(so, "OUTCOME {}", serde_json::to_string(o).unwrap());
    let _ = so.flush();
}

/// scratch directory for database files: tmpfs when present
pub fn scratch_root() -> PathBuf {
    let base = if std::path::Path::new("/dev/shm").is_dir() {
        PathBuf::from("/dev/shm")
    } else {
        std::env::temp_dir()
    };
    base.join(format!("mc-verif-{}", std::process::id()))
}

pub struct ScratchGuard(pub PathBuf);
impl Drop for ScratchGuard {
    fn drop(&mut self) {
        let _ = std::fs::remove_dir_all(&self.0);
    }
}

pub fn ncpu() -> usize {
    std::thread::available_parallelism()
        .map(|n| n.get())
        .unwrap_or(4)
}
