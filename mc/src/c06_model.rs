//! C06 - layout model of everything the data key signs (no code shared with discret).
//!
//! A *kind* is an ordered list of fields; the signed message is blake3 of the concatenation of the
//! present fields' encodings. Fields are `Fixed(n)` (uids, little endian dates, hashes), `Str`
//! (UTF-8 text, raw bytes in the digest), `Bytes` (raw), `JsonStr` (text, enters the digest *as a
//! JSON string literal*: quoted and escaped) and `Key` (33 bytes: algorithm flag 1 + ed25519 key).
//! The model is bound to the real code by the conformance step of `c06.rs` on every enumerated row.
//!
//! `parses(bytes, kind)` is the aligned-shift generator in its general form: it returns EVERY row
//! of `kind` (every presence pattern of the optional fields, every split of the bytes between the
//! variable length fields) whose concatenation is exactly `bytes`.
use serde_json::{json, Value};

#[derive(Clone, Copy, PartialEq, Eq, Hash, Debug, PartialOrd, Ord)]
pub enum Kind {
    Node,
    Edge,
    NodeDel,
    EdgeDel,
    /// multicast / beacon announce header (not a row: no author key inside the signed bytes)
    Announce,
    /// invitation (not a row)
    Invite,
}
pub const ROW_KINDS: [Kind; 4] = [Kind::Node, Kind::Edge, Kind::NodeDel, Kind::EdgeDel];

impl Kind {
    pub fn name(&self) -> &'static str {
        match self {
            Kind::Node => "node",
            Kind::Edge => "edge",
            Kind::NodeDel => "node_deletion",
            Kind::EdgeDel => "edge_deletion",
            Kind::Announce => "announce_header",
            Kind::Invite => "invitation",
        }
    }
    pub fn from_name(s: &str) -> Option<Kind> {
        [
            Kind::Node,
            Kind::Edge,
            Kind::NodeDel,
            Kind::EdgeDel,
            Kind::Announce,
            Kind::Invite,
        ]
        .into_iter()
        .find(|k| k.name() == s)
    }
}

#[derive(Clone, Copy, PartialEq, Eq, Debug)]
pub enum Ty {
    Fixed(usize),
    Str,
    Bytes,
    JsonStr,
    Key,
}

pub struct FieldDef {
    pub name: &'static str,
    pub ty: Ty,
    pub optional: bool,
}
const fn fd(name: &'static str, ty: Ty, optional: bool) -> FieldDef {
    FieldDef { name, ty, optional }
}

const NODE: [FieldDef; 8] = [
    fd("id", Ty::Fixed(16), false),
    fd("room_id", Ty::Fixed(16), true),
    fd("cdate", Ty::Fixed(8), false),
    fd("mdate", Ty::Fixed(8), false),
    fd("entity", Ty::Str, false),
    fd("json", Ty::JsonStr, true),
    fd("binary", Ty::Bytes, true),
    fd("key", Ty::Key, false),
];
const EDGE: [FieldDef; 6] = [
    fd("src", Ty::Fixed(16), false),
    fd("entity", Ty::Str, false),
    fd("label", Ty::Str, false),
    fd("dest", Ty::Fixed(16), false),
    fd("cdate", Ty::Fixed(8), false),
    fd("key", Ty::Key, false),
];
const NODE_DEL: [FieldDef; 6] = [
    fd("room_id", Ty::Fixed(16), false),
    fd("id", Ty::Fixed(16), false),
    fd("mdate", Ty::Fixed(8), false),
    fd("entity", Ty::Str, false),
    fd("deletion_date", Ty::Fixed(8), false),
    fd("key", Ty::Key, false),
];
const EDGE_DEL: [FieldDef; 8] = [
    fd("room_id", Ty::Fixed(16), false),
    fd("src", Ty::Fixed(16), false),
    fd("entity", Ty::Str, false),
    fd("label", Ty::Str, false),
    fd("dest", Ty::Fixed(16), false),
    fd("cdate", Ty::Fixed(8), false),
    fd("deletion_date", Ty::Fixed(8), false),
    fd("key", Ty::Key, false),
];
const ANNOUNCE: [FieldDef; 2] = [
    fd("endpoint_id", Ty::Fixed(16), false),
    fd("certificate_hash", Ty::Fixed(32), false),
];
const INVITE: [FieldDef; 2] = [
    fd("invite_id", Ty::Fixed(16), false),
    fd("application", Ty::Str, false),
];

pub fn layout(kind: Kind) -> &'static [FieldDef] {
    match kind {
        Kind::Node => &NODE,
        Kind::Edge => &EDGE,
        Kind::NodeDel => &NODE_DEL,
        Kind::EdgeDel => &EDGE_DEL,
        Kind::Announce => &ANNOUNCE,
        Kind::Invite => &INVITE,
    }
}

pub fn field_index(kind: Kind, name: &str) -> usize {
    layout(kind)
        .iter()
        .position(|f| f.name == name)
        .unwrap_or_else(|| panic!("no field {} in {}", name, kind.name()))
}

/// JSON string literal of `text` (RFC 8259 minimal escaping, lower case hex): what the node
/// digest contains for the json column
pub fn json_string_literal(text: &[u8]) -> Vec<u8> {
    let mut out = Vec::with_capacity(text.len() + 2);
    out.push(b'"');
    for &b in text {
        match b {
            b'"' => out.extend_from_slice(b"\\\""),
            b'\\' => out.extend_from_slice(b"\\\\"),
            0x08 => out.extend_from_slice(b"\\b"),
            0x0c => out.extend_from_slice(b"\\f"),
            b'\n' => out.extend_from_slice(b"\\n"),
            b'\r' => out.extend_from_slice(b"\\r"),
            b'\t' => out.extend_from_slice(b"\\t"),
            0..=0x1f => {
                const HEX: &[u8; 16] = b"0123456789abcdef";
                out.extend_from_slice(b"\\u00");
                out.push(HEX[(b >> 4) as usize]);
                out.push(HEX[(b & 15) as usize]);
            }
            _ => out.push(b),
        }
    }
    out.push(b'"');
    out
}

/// inverse of `json_string_literal`: Some(text) iff `seg` is exactly the literal of a UTF-8 text
pub fn json_string_unliteral(seg: &[u8]) -> Option<Vec<u8>> {
    if seg.len() < 2 || seg[0] != b'"' || seg[seg.len() - 1] != b'"' {
        return None;
    }
    let body = &seg[1..seg.len() - 1];
    let mut out = Vec::with_capacity(body.len());
    let mut i = 0;
    while i < body.len() {
        let b = body[i];
        match b {
            b'"' => return None,
            0..=0x1f => return None,
            b'\\' => {
                i += 1;
                let e = *body.get(i)?;
                match e {
                    b'"' => out.push(b'"'),
                    b'\\' => out.push(b'\\'),
                    b'b' => out.push(0x08),
                    b'f' => out.push(0x0c),
                    b'n' => out.push(b'\n'),
                    b'r' => out.push(b'\r'),
                    b't' => out.push(b'\t'),
                    b'u' => {
                        let h = body.get(i + 1..i + 5)?;
                        if h[0] != b'0' || h[1] != b'0' {
                            return None;
                        }
                        let d = |c: u8| -> Option<u8> {
                            match c {
                                b'0'..=b'9' => Some(c - b'0'),
                                b'a'..=b'f' => Some(c - b'a' + 10),
                                _ => None,
                            }
                        };
                        let v = d(h[2])? * 16 + d(h[3])?;
                        if v > 0x1f || matches!(v, 0x08 | 0x09 | 0x0a | 0x0c | 0x0d) {
                            return None;
                        }
                        out.push(v);
                        i += 4;
                    }
                    _ => return None,
                }
            }
            _ => out.push(b),
        }
        i += 1;
    }
    if std::str::from_utf8(&out).is_err() {
        return None;
    }
    Some(out)
}

#[derive(Clone, PartialEq, Eq, Hash, Debug, PartialOrd, Ord)]
pub struct Row {
    pub kind: Kind,
    /// one entry per field of the layout; None = optional field absent
    pub vals: Vec<Option<Vec<u8>>>,
}

#[derive(Clone, Copy, Debug, PartialEq, Eq)]
pub struct Seg {
    pub field: usize,
    pub start: usize,
    pub end: usize,
}

fn min_len(def: &FieldDef) -> usize {
    match def.ty {
        Ty::Fixed(n) => n,
        Ty::Key => 33,
        Ty::Str | Ty::Bytes => 0,
        Ty::JsonStr => 2,
    }
}

impl Row {
    pub fn get(&self, name: &str) -> Option<&Vec<u8>> {
        self.vals[field_index(self.kind, name)].as_ref()
    }
    fn encoded(def: &FieldDef, v: &[u8]) -> Vec<u8> {
        match def.ty {
            Ty::JsonStr => json_string_literal(v),
            _ => v.to_vec(),
        }
    }

    /// the signed message before hashing
    pub fn concat(&self) -> Vec<u8> {
        let mut out = Vec::with_capacity(128);
        for (def, v) in layout(self.kind).iter().zip(&self.vals) {
            if let Some(v) = v {
                out.extend_from_slice(&Self::encoded(def, v));
            }
        }
        out
    }

    pub fn segments(&self) -> Vec<Seg> {
        let mut segs = vec![];
        let mut pos = 0;
        for (i, (def, v)) in layout(self.kind).iter().zip(&self.vals).enumerate() {
            if let Some(v) = v {
                let l = Self::encoded(def, v).len();
                segs.push(Seg {
                    field: i,
                    start: pos,
                    end: pos + l,
                });
                pos += l;
            }
        }
        segs
    }

    pub fn digest(&self) -> [u8; 32] {
        *blake3::hash(&self.concat()).as_bytes()
    }

    /// boundaries between adjacent present fields: (offset, "left|right")
    pub fn boundaries(&self) -> Vec<(usize, String)> {
        let l = layout(self.kind);
        let segs = self.segments();
        segs.windows(2)
            .map(|w| {
                (
                    w[0].end,
                    format!("{}|{}", l[w[0].field].name, l[w[1].field].name),
                )
            })
            .collect()
    }

    /// what the types of the real structs allow (Uid = 16 bytes, i64, String = UTF-8)
    pub fn type_valid(&self) -> bool {
        let l = layout(self.kind);
        if l.len() != self.vals.len() {
            return false;
        }
        for (def, v) in l.iter().zip(&self.vals) {
            match v {
                None => {
                    if !def.optional {
                        return false;
                    }
                }
                Some(v) => match def.ty {
                    Ty::Fixed(n) => {
                        if v.len() != n {
                            return false;
                        }
                    }
                    Ty::Key | Ty::Bytes => {}
                    Ty::Str | Ty::JsonStr => {
                        if std::str::from_utf8(v).is_err() {
                            return false;
                        }
                    }
                },
            }
        }
        true
    }

    /// model of the pre-checks of the real sign()/verify(): which rows an instance can sign, store
    /// and accept at all
    pub fn acceptable(&self) -> bool {
        if !self.type_valid() {
            return false;
        }
        if let Some(k) = self.vals.last().and_then(|k| k.as_ref()) {
            if matches!(layout(self.kind).last().unwrap().ty, Ty::Key)
                && (k.len() != 33 || k[0] != 1)
            {
                return false;
            }
        }
        match self.kind {
            Kind::Node => {
                if self.get("entity").map(|e| e.is_empty()).unwrap_or(true) {
                    return false;
                }
                if let Some(j) = self.get("json") {
                    match serde_json::from_slice::<Value>(j) {
                        Ok(v) => {
                            if !v.is_object() {
                                return false;
                            }
                        }
                        Err(_) => return false,
                    }
                }
                true
            }
            Kind::Edge => {
                let e = self.get("entity").map(|e| e.len()).unwrap_or(0);
                let l = self.get("label").map(|e| e.len()).unwrap_or(0);
                // documented limit: 1024 bytes for the whole reference (two uids, date, key, signature)
                e > 0 && l > 0 && 16 + e + l + 16 + 8 + 33 + 64 <= 1024
            }
            _ => true,
        }
    }

    pub fn to_json(&self) -> Value {
        let mut fields = serde_json::Map::new();
        for (def, v) in layout(self.kind).iter().zip(&self.vals) {
            fields.insert(
                def.name.to_string(),
                match v {
                    None => Value::Null,
                    Some(v) => json!(hex::encode(v)),
                },
            );
        }
        json!({"kind": self.kind.name(), "fields_hex": Value::Object(fields), "readable": self.describe()})
    }

    pub fn from_json(v: &Value) -> Result<Row, String> {
        let kind = v
            .get("kind")
            .and_then(|k| k.as_str())
            .and_then(Kind::from_name)
            .ok_or("row: bad kind")?;
        let f = v
            .get("fields_hex")
            .and_then(|f| f.as_object())
            .ok_or("row: no fields_hex")?;
        let mut vals = vec![];
        for def in layout(kind) {
            match f.get(def.name) {
                None | Some(Value::Null) => vals.push(None),
                Some(Value::String(s)) => {
                    vals.push(Some(hex::decode(s).map_err(|e| e.to_string())?))
                }
                _ => return Err("row: bad field".into()),
            }
        }
        Ok(Row { kind, vals })
    }

    pub fn describe(&self) -> String {
        let mut s = format!("{}(", self.kind.name());
        for (i, (def, v)) in layout(self.kind).iter().zip(&self.vals).enumerate() {
            if i > 0 {
                s.push_str(", ");
            }
            s.push_str(def.name);
            s.push('=');
            match v {
                None => s.push_str("absent"),
                Some(v) => match def.ty {
                    Ty::Str | Ty::JsonStr => s.push_str(&format!("{:?}", String::from_utf8_lossy(v))),
                    Ty::Bytes => s.push_str(&format!("bytes{:?}", String::from_utf8_lossy(v))),
                    Ty::Key => s.push_str(&format!("key:{}", &hex::encode(&v[..v.len().min(4)]))),
                    Ty::Fixed(8) => {
                        let mut a = [0u8; 8];
                        a.copy_from_slice(v);
                        s.push_str(&format!("{}", i64::from_le_bytes(a)))
                    }
                    Ty::Fixed(_) => {
                        if v.iter().all(|b| b.is_ascii_graphic()) {
                            s.push_str(&format!("'{}'", String::from_utf8_lossy(v)))
                        } else {
                            s.push_str(&format!("x{}", &hex::encode(&v[..4])))
                        }
                    }
                },
            }
        }
        s.push(')');
        s
    }

    pub fn total_len(&self) -> usize {
        self.vals
            .iter()
            .map(|v| v.as_ref().map(|v| v.len()).unwrap_or(0))
            .sum()
    }
}

/// every row of `kind` whose concatenation is exactly `bytes` (appended to `out`)
pub fn parses(bytes: &[u8], kind: Kind, out: &mut Vec<Row>) {
    let l = layout(kind);
    let optional: Vec<usize> = (0..l.len()).filter(|i| l[*i].optional).collect();
    for mask in 0..(1usize << optional.len()) {
        let present: Vec<usize> = (0..l.len())
            .filter(|i| match optional.iter().position(|o| o == i) {
                Some(p) => mask & (1 << p) != 0,
                None => true,
            })
            .collect();
        // minimum length of the suffix starting at present[i]
        let mut suffix_min = vec![0usize; present.len() + 1];
        for i in (0..present.len()).rev() {
            suffix_min[i] = suffix_min[i + 1] + min_len(&l[present[i]]);
        }
        if suffix_min[0] > bytes.len() {
            continue;
        }
        let mut vals: Vec<Option<Vec<u8>>> = vec![None; l.len()];
        rec(bytes, kind, l, &present, &suffix_min, 0, 0, &mut vals, out);
    }
}

#[allow(clippy::too_many_arguments)]
fn rec(
    bytes: &[u8],
    kind: Kind,
    l: &'static [FieldDef],
    present: &[usize],
    suffix_min: &[usize],
    i: usize,
    pos: usize,
    vals: &mut Vec<Option<Vec<u8>>>,
    out: &mut Vec<Row>,
) {
    if i == present.len() {
        if pos == bytes.len() {
            out.push(Row {
                kind,
                vals: vals.clone(),
            });
        }
        return;
    }
    let fi = present[i];
    let def = &l[fi];
    let rest_min = suffix_min[i + 1];
    match def.ty {
        Ty::Fixed(n) => {
            if pos + n + rest_min <= bytes.len() {
                vals[fi] = Some(bytes[pos..pos + n].to_vec());
                rec(bytes, kind, l, present, suffix_min, i + 1, pos + n, vals, out);
                vals[fi] = None;
            }
        }
        Ty::Key => {
            if pos + 33 + rest_min <= bytes.len() && bytes[pos] == 1 {
                vals[fi] = Some(bytes[pos..pos + 33].to_vec());
                rec(bytes, kind, l, present, suffix_min, i + 1, pos + 33, vals, out);
                vals[fi] = None;
            }
        }
        Ty::Str | Ty::Bytes | Ty::JsonStr => {
            if pos + min_len(def) + rest_min > bytes.len() {
                return;
            }
            if def.ty == Ty::JsonStr && bytes[pos] != b'"' {
                return;
            }
            // when this is the last variable field before a fixed tail, its end is forced
            let tail_fixed = present[i + 1..]
                .iter()
                .all(|j| matches!(l[*j].ty, Ty::Fixed(_) | Ty::Key));
            let lo = pos + min_len(def);
            let hi = bytes.len() - rest_min;
            let range: Box<dyn Iterator<Item = usize>> = if tail_fixed {
                Box::new(std::iter::once(hi))
            } else {
                Box::new(lo..=hi)
            };
            for end in range {
                if end < lo {
                    continue;
                }
                let seg = &bytes[pos..end];
                let v = match def.ty {
                    Ty::Str => {
                        if std::str::from_utf8(seg).is_err() {
                            continue;
                        }
                        seg.to_vec()
                    }
                    Ty::Bytes => seg.to_vec(),
                    Ty::JsonStr => match json_string_unliteral(seg) {
                        Some(v) => v,
                        None => continue,
                    },
                    _ => unreachable!(),
                };
                vals[fi] = Some(v);
                rec(bytes, kind, l, present, suffix_min, i + 1, end, vals, out);
                vals[fi] = None;
            }
        }
    }
}

/// id-free name of the way two rows with the same signed bytes differ:
/// per row the first field boundary (offset, "left|right") that the other row does not have;
/// when both rows are cut at the same places with the same field names, the fields whose values
/// differ (only possible when a field does not reach the digest)
pub fn finding_key(a: &Row, b: &Row) -> String {
    let ba = a.boundaries();
    let bb = b.boundaries();
    let first = |x: &Vec<(usize, String)>, y: &Vec<(usize, String)>| -> String {
        x.iter()
            .find(|e| !y.contains(e))
            .map(|e| e.1.clone())
            .unwrap_or_else(|| "-".to_string())
    };
    let mut sides = [
        (a.kind.name(), first(&ba, &bb)),
        (b.kind.name(), first(&bb, &ba)),
    ];
    if sides[0].1 == "-" && sides[1].1 == "-" && a.kind == b.kind {
        let l = layout(a.kind);
        let diff: Vec<&str> = (0..l.len())
            .filter(|i| a.vals[*i] != b.vals[*i])
            .map(|i| l[i].name)
            .collect();
        return format!("A:{}:same-cuts:differs-in:{}", a.kind.name(), diff.join("+"));
    }
    sides.sort();
    format!(
        "A:{}[{}]~{}[{}]",
        sides[0].0, sides[0].1, sides[1].0, sides[1].1
    )
}

/// all strings over `alphabet` of length 0..=max_len, shortest first, then alphabet order
pub fn strings_upto(alphabet: &[u8], max_len: usize) -> Vec<Vec<u8>> {
    let mut out: Vec<Vec<u8>> = vec![vec![]];
    let mut prev: Vec<Vec<u8>> = vec![vec![]];
    for _ in 0..max_len {
        let mut next = vec![];
        for p in &prev {
            for &c in alphabet {
                let mut s = p.clone();
                s.push(c);
                next.push(s);
            }
        }
        out.extend(next.iter().cloned());
        prev = next;
    }
    out
}

/// Bounded domain of one kind, addressed by a mixed radix index. Low digit = assignment of the
/// fixed fields, then the variable fields (the first one is the highest digit), each ordered
/// shortest value first: the enumeration is simplest first.
pub struct Domain {
    pub kind: Kind,
    /// per field the candidate values (index 0 = base value)
    pub field_values: Vec<Vec<Option<Vec<u8>>>>,
    /// indices of the fields enumerated as a full product (variable / optional-variable fields)
    pub product_fields: Vec<usize>,
    /// assignments of the other (fixed) fields: one value index per fixed field
    pub fixed_fields: Vec<usize>,
    pub fixed_assignments: Vec<Vec<usize>>,
}

impl Domain {
    pub fn new(kind: Kind, field_values: Vec<Vec<Option<Vec<u8>>>>) -> Domain {
        let l = layout(kind);
        assert_eq!(l.len(), field_values.len());
        let product_fields: Vec<usize> = (0..l.len())
            .filter(|i| matches!(l[*i].ty, Ty::Str | Ty::Bytes | Ty::JsonStr))
            .collect();
        let fixed_fields: Vec<usize> = (0..l.len())
            .filter(|i| !product_fields.contains(i))
            .collect();
        // base, every single deviation from the base, everything at its last value
        let mut fixed_assignments = vec![vec![0usize; fixed_fields.len()]];
        for (p, f) in fixed_fields.iter().enumerate() {
            for v in 1..field_values[*f].len() {
                let mut a = vec![0usize; fixed_fields.len()];
                a[p] = v;
                fixed_assignments.push(a);
            }
        }
        let last: Vec<usize> = fixed_fields
            .iter()
            .map(|f| field_values[*f].len() - 1)
            .collect();
        if !fixed_assignments.contains(&last) {
            fixed_assignments.push(last.clone());
        }
        // everything at its last value, one optional fixed field absent
        for (p, f) in fixed_fields.iter().enumerate() {
            if let Some(none_idx) = field_values[*f].iter().position(|v| v.is_none()) {
                let mut a = last.clone();
                a[p] = none_idx;
                if !fixed_assignments.contains(&a) {
                    fixed_assignments.push(a);
                }
            }
        }
        Domain {
            kind,
            field_values,
            product_fields,
            fixed_fields,
            fixed_assignments,
        }
    }

    pub fn size(&self) -> u64 {
        let mut n = self.fixed_assignments.len() as u64;
        for f in &self.product_fields {
            n *= self.field_values[*f].len() as u64;
        }
        n
    }

    /// (row, index of the fixed assignment)
    pub fn row(&self, mut idx: u64) -> (Row, usize) {
        let na = self.fixed_assignments.len() as u64;
        let a = (idx % na) as usize;
        idx /= na;
        let mut vals: Vec<Option<Vec<u8>>> = vec![None; self.field_values.len()];
        // the LAST product field is the fastest digit: rows sharing their first fields are adjacent
        for f in self.product_fields.iter().rev() {
            let n = self.field_values[*f].len() as u64;
            vals[*f] = self.field_values[*f][(idx % n) as usize].clone();
            idx /= n;
        }
        for (p, f) in self.fixed_fields.iter().enumerate() {
            vals[*f] = self.field_values[*f][self.fixed_assignments[a][p]].clone();
        }
        (
            Row {
                kind: self.kind,
                vals,
            },
            a,
        )
    }
}

#[cfg(test)]
mod tests {
    use super::*;
    #[test]
    fn literal_roundtrip() {
        for s in strings_upto(&[b'a', b'"', b'\\', b'\n', 1], 3) {
            let lit = json_string_literal(&s);
            assert_eq!(json_string_unliteral(&lit), Some(s.clone()));
            assert_eq!(lit, serde_json::to_string(std::str::from_utf8(&s).unwrap()).unwrap().into_bytes());
        }
    }
}
