#!/usr/bin/env python3
"""Generates /verif/MANIFEST.json from the table below (single source of truth for what is claimed)."""
import json

HOOK_COMMITS = ["d0a5f52", "9f37ab8", "6f42907"]

# id -> (category, technique, text, note, design_ref)
CHECKS = {
 "C01": ("model_checking",
         "explicit-state enumeration of room-definition histories x exhaustive operation catalogue on the real service, verdicts vs an independent rights oracle",
         "Every room-definition history up to the depth bound (3 templates x creator events, applied through the real room-mutation path and propagated by the real export/import) x every caller identity x 38 operation shapes (creation incl. typed values, update, room move, nested, reference add / clear / delete, deletions, direct writes of authorisation entities, room mutations incl. the rewriting of a stored entry) is executed on real GraphDatabaseService instances; each verdict is compared with the rights oracle, refused operations are checked to leave the database file unchanged (SQLite data_version) and authorisation rows to change only through room mutations.",
         "Trusts the rights oracle (150 lines, written from the documentation), the clock hook, and that fixture rows planted unchecked with real signatures are indistinguishable from rows that arrived earlier. Bounded: 4 identities, 3 rooms, depth 2 (quick) / 3 (thorough).",
         "DESIGN.md section 5 C01"),
 "C10": ("model_checking",
         "explicit-state enumeration of room histories x all construction paths on the real service, differential against the rights oracle",
         "Every room history up to the depth bound is built with real room mutations and observed through nine construction paths on real instances: the live room (RoomModified event), incremental import, fresh import of the whole history, import over an earlier version, re-import, storage reload (the real LOAD_ROOMS query + load_json) on each of them, and a real restart of every instance; each path's decision matrix (admin, member, user admin, own/all right per entity at every event date +-1 ms) must equal the oracle's, and every construction step must succeed.",
         "Trusts the rights oracle; reload is composed by the harness from the real query path and load_json exactly as start-up does and validated by a real restart per chunk of 16 histories. Bounded: one varying key, one varying entity, 3 templates, depth 2-3 (quick) / 3-4 (thorough).",
         "DESIGN.md section 5 C10"),
 "C07": ("model_checking",
         "bounded-exhaustive enumeration of single attack transformations of honest room exports against the real import path, decisions vs the rights oracle",
         "For 5 scenarios (incl. the attacker being a former administrator or a former user administrator) x victim {holds an earlier definition, never saw the room} x attacker {member, outsider}, every single transformation of the honest export of a richer definition (omission, duplication, re-ordering, attacker-signed entries in every list at three dates, replay of validly signed entries across lists, groups and rooms, re-labelling, re-signing, grafted groups, attacker-authored definition rows) is delivered through the real signature check and add_room_node; after acceptance no stored entry may be removed or altered and the decision matrix of the resulting room must equal the oracle's for the old entries plus the legitimately added ones; after refusal nothing may change. Honest exports are also delivered in 12 orders/multiplicities and must converge.",
         "Member and outsider attackers are never entitled, so nothing they sign is legitimate. Single transformations only (pairs are not enumerated); omissions towards a victim that never saw the room are not judged. Trusts the rights oracle and the RoomModified event as the view of the resulting room.",
         "DESIGN.md section 5 C07"),
 "C03": ("model_checking",
         "exhaustive enumeration of directed pull orders (and single interruptions) after scripted multi-peer histories, real pull routine against real serving routine, cross-peer equality oracle",
         "For each scripted history (creations, same-millisecond / same-day / cross-day concurrent updates, reference changes, deletions, second entity on the same / an earlier / a later day, definition change) on 3 real peers (2 and 4 in thorough) every sequence of directed pairwise synchronisations up to the length bound, plus every single interruption of a pull after n protocol answers, is executed with the real synchronise_room against the real process_inbound, followed by round-robin pulls until a full round writes nothing; then all members must hold identical rows, live references and deletion records, return identical JSON for a fixed query set, and quiescence must be reached within 3*n^2 rounds.",
         "All members hold every right (authorisation is decided by C02/C12). Writes precede the enumerated pulls. Quiescence = SQLite data_version unchanged on every member during a full round. Bounds: order length 2 (quick) / 4 (thorough), 13-16 histories.",
         "DESIGN.md section 5 C03"),
 "C11": ("model_checking",
         "exhaustive enumeration of directed pull orders after deletion histories with a tombstone monitor evaluated after every step",
         "For each deletion history (node deleted the same day, on a later day by another peer, racing with an update, reference deleted on another peer) every sequence of directed pulls among 3 real peers (4 in thorough) up to the length bound is executed with the real pull and serving routines; after every step a monitor checks that no peer holding the deletion record shows the row or reference at the deleted or an older version, and after round-robin quiescence that the row is absent and the deletion record present on every member.",
         "All members hold every right. The deletion record is the one written by the real deletion path. Bounds: order length 3 (quick) / 5 (thorough).",
         "DESIGN.md section 5 C11"),
 "C02": ("model_checking",
         "bounded-exhaustive enumeration of forged rows served by the honest serving code over a dishonest database, real pull on the victim, verdict vs the rights oracle",
         "Every combination kind(11: new row, newer own/foreign version, move into the room, own/foreign node deletion record, reference on own/foreign source row, own/foreign reference deletion record) x author role(5) x row date(4), plus 10 integrity/JSON/entity variants on node kinds and two-row batches with an honest neighbour, is written unchecked (real signatures of any harness-held key) into the sender's database, advertised by its really computed daily log and pulled by the victim with the real synchronise_room; the forged item must be stored iff signature, room, model and the oracle's right for its author at its own date all hold, a rejected item must leave no row or log entry, and an honest neighbour must be stored whatever travels with it.",
         "Trusts the rights oracle. Lies a database cannot express (row listed under a room it is not stored in, mismatching identifier list) and empty keys (C14) are not injected. One fixed room definition (admin, own-writer, all-writer, member disabled later, outsider).",
         "DESIGN.md section 5 C02"),
 "C12": ("model_checking",
         "C01's exhaustive enumeration replayed differentially: local verdict vs the verdict of an honest peer's ingestion path on the very rows the local path produced (or would have produced)",
         "For every room history (depth 1 quick / 2 thorough) x caller x 24 data operations, fixtures are planted on the caller's device and on an honest peer holding the same definition; a locally accepted operation's produced rows, references and deletion records are handed to the peer through the real ingestion entry points in synchronisation order and must all be stored; for a locally refused create/update/move/delete the equivalent correctly signed write is forged and must be refused by the peer too.",
         "Peer side = the ingestion sequence of synchronise_day composed by the harness from the real entry points (not the log-driven pull, whose stalls belong to C03). Refused operations are forged for simple shapes only.",
         "DESIGN.md section 5 C12"),
 "C08": ("model_checking",
         "explicit-state breadth-first search over the serving state of a connection, every request evaluated in every reachable state through the real serving routine",
         "Events {authenticate, RoomList, clock early/late, definition-change notification for each of 7 rooms} are explored breadth-first to depth 4 (5 thorough) on a connection of the real serving side and deduplicated on (authenticated, ready, readable room set, clock); in each of the distinct serving states all 13 query kinds are issued for each of 7 rooms (requester member, former member, future member, never member, admin only, user admin only, disabled admin) plus cross-room identifier tuples through the real process_inbound, every answer is decoded with the type the client expects, and any row, reference, deletion record, log line, member list or definition of a room where the oracle says the requester is not a member at that time - or anything before authentication - is a leak.",
         "The notification rule of the private process_local_event is emulated with the real Room::has_user; authentication is set as initialise_connection does after a successful proof (C19 decides the proof). Canonical state soundness: process_inbound reads no other connection state.",
         "DESIGN.md section 5 C08"),
 "C18": ("model_checking",
         "exhaustive enumeration of operation sequences, same-batch pairs (writer gate) and interrupted pulls on the real service with two subscribers, differential oracle on stored content",
         "Every sequence of up to 2 operations (3 over a core alphabet in thorough) from 23 operations (create/update/delete over 2 rooms x 2 entities x 2 days, nested create / update through an unchanged owner / attach, a closed mutation stream, a room mutation alone and together with a row in one request, ingestion by a real pull over a shared two-day history), every ordered pair of local operations forced into one writer transaction by parking the writer at its gate, and pulls interrupted after 1..14 protocol answers run on a real instance with two subscribers; once quiescent every (room, entity, day) cell whose stored signatures changed must have been named by a data-changed event on both subscribers, every accepted room mutation must have produced a room-modified event, and no recompute mark may remain.",
         "Quiescence = two FIFO round trips through database actor, writer and event service. Subscribers are drained after every workload (the broadcast channel holds 16 events; overflow of an undrained subscriber is not explored).",
         "DESIGN.md section 5 C18"),

 "C05": ("model_checking",
         "bounded-exhaustive enumeration of (model, data set, query) per clause family against an independent reference evaluator, plus exhaustive paging walks",
         "Over 4 data models (scalars with nullable fields and defaults, single/array/self references over two namespaces and two levels, Json, Base64) and ALL data sets over {absent, null, v1, v2} per clause family, queries are generated clause family by clause family from the real grammar (selection, one and two filters, one and two order keys, first/skip, after/before with every cursor of the domain, first/after walks with page sizes 1 and 2, before/after splits around every row, aggregates with having, nested entities with nullable(), json selectors) and run through the real parser, PreparedQueries and Query::read; the JSON is compared structurally with a reference evaluator written by the harness that is permissive exactly where the documentation leaves the meaning open (order among ties, placement of nulls if consistent between unpaged result and pages, both readings of null comparisons).",
         "Trusts the reference evaluator (own AST and evaluation over a harness-side copy of the inserted data). Light world (in-memory connection, real phase functions); 509 cases per quick run also go through a real service. Row bounds per family are small (ties and nulls forced).",
         "DESIGN.md section 5 C05"),
 "C06": ("model_checking",
         "layout model of the four signed digests bound to the real sign/verify on every enumerated row; exhaustive alias search over the bounded domain replayed on the real verify; exhaustive enumeration of signing requests on a real instance",
         "Part A: for every row of a bounded domain of the four signed kinds (variable fields = all strings up to length 2 (3-4 thorough) over {a \" { }}, optional fields present/absent, two values per fixed field) the model digest is signed and the real verify() must accept it iff the model says so, the real sign() must give the same signature; then every row of any kind, optional-field pattern and field split whose signed bytes equal this row's is constructed and replayed on the real verify() (sign r, copy the signature to r' != r), and real signatures are bucketed. Part B: ProveIdentity(challenge) is sent unauthenticated through the real process_inbound with challenge = digest of five forged row kinds naming the victim, lengths 0/1/31/33/64, announce-header and invitation hashes; each returned signature is attached to the forged row, verified with the real verify() and ingested by an honest member through the real entry points. Part C: every row and reference contained in a room definition with all lists populated (11 kinds of position) x 4 tampers (signature bit, content, key, date) must be refused by SignatureVerificationService::room_check and by the verification service of a receiving instance.",
         "blake3 collision resistance and ed25519 unforgeability/determinism are trusted. The alias search is complete for every signed row of the domain (the bound applies to the signed row, not to the alias). QUIC transport not run.",
         "DESIGN.md section 5 C06"),
 "C14": ("model_checking",
         "bounded-exhaustive input-shape enumeration on the real parsers, executors and a live instance, with a process-wide panic hook and a liveness probe after every adversarial input",
         "Every token string up to length 4 (5 thorough) over 11-25 token alphabets in 16 frames of the four grammars goes to the real parsers and, when accepted, through execute/validate/batch write/query read; every parameter value kind x field kind x position (5458 requests); 187 identifier classes (all 147 SQLite keywords, digit-first, underscore-first, non-ASCII, lengths 1 and 64) x 13 roles; 1.47 M wire decodes of 22 protocol types (all byte strings of length <= 2, every truncation, byte change and length inflation of valid encodings) in a child process; 846 rows with odd key length, signature length, dates and content through verify, the verification service and the ingestion entry points; 284 protocol queries through the real process_inbound; 688 invitation byte strings. On a real instance a probe (mutation, query that must see it, signature verification, reader-pool head count) follows each of 7286 inputs. Oracle: result or error, no panic on any thread, probe answered, no engine error for an accepted request.",
         "Keys contain the source line of a panic. QUIC framing is exercised at the decode layer only; accept_invite through its three input-dependent steps, not through a PeerManager.",
         "DESIGN.md section 5 C14"),
 "C16": ("model_checking",
         "exhaustive schedule enumeration (all linear extensions of read / validate / batch-commit x all batch partitions) on the real phase functions, serial-outcome oracle, every schedule class forced on the real service with reader/writer gates",
         "For every ordered pair (quick) and every sequence of 2-3 mutations (thorough) of 8 kinds on one row (two fields, same field twice, add / replace reference, room move, clearing an already empty reference list = a mutation that assigns nothing) every interleaving the pipeline allows of snapshot read, sign/validate and batch commit, for every grouping into write batches, is executed on MutationQuery::execute, validate_mutation and process_batch_write; the final row, references and signatures must equal the serial result of some order of the acknowledged mutations. Every class (batches, commits before each read, read order) is then forced on a real GraphDatabaseService with two reader threads through both entry points and must end identically; findings are reported only for classes confirmed there.",
         "Reads are atomic steps; at most one reader is parked at a time (classes needing two are required to equal a forced twin); the differential oracle shares the serial code path. Bounds: n=2 (quick), n<=3 with repetition (thorough).",
         "DESIGN.md section 5 C16"),
 "C17": ("model_checking",
         "explicit-state breadth-first search over local write / ingestion histories on the real pipeline with a differential search oracle in every state, plus exhaustive bounded two-peer histories with real pulls",
         "Light world: BFS (depth 4 quick, 5-6 thorough, <= 3 live rows, globally deduplicated on a canonical state that keeps row ids and the logical index content) over create / set / clear / delete-with-slot-reuse / model-version toggle / deliver-new / deliver-version built as the puller builds them; after every transition search(t) for aaa, bbb, ccc and a never-stored probe through the real query engine must equal the rows whose current strings contain t, and no legitimate write may be refused by the engine. Full world: every history of depth 4 (5) over create/update/delete/pull on two real peers sharing a room, same oracle on both peers after every step, plus restart-with-other-model histories.",
         "Search texts are single 3-letter tokens; one indexed entity; equal canonical states must give equal verdicts (guard, never violated).",
         "DESIGN.md section 5 C17"),
 "C19": ("model_checking",
         "bounded-exhaustive input-shape enumeration on the real initialise_connection (paused clock), exhaustive schedule enumeration of connection open / handshake / consumption on the real PeerManager, all ordered pairs of 64 key materials",
         "Part A: token type(8) x presented identity(4) x proof mode(5, incl. an answer recorded on a previous real connection) x peer-row shape(15) x transport behaviour(8, incl. no answer and a late answer under paused time) on the real initialise_connection behind a real QueryService, oracle computed from the case parameters only (accepted, key bound, connected/invite-accepted emitted iff possession of the expected key was proved on this connection's challenge). Part B: every interleaving of open/handshake/consume of 2 (3) connections on one invitation, inviter and invitee side, same and different remote keys, on a real PeerManager over real databases and a socket-free endpoint; every single-bit (single-byte) corruption and truncation of the 108 invitation bytes; foreign application. Part C: token(a,b)=token(b,a), stability and distinctness for all ordered pairs of 64 key materials.",
         "Ed25519 unforgeability; paused clock is faithful for the 10 s timeout (no OS thread in part A); the harness plays the PeerConnectionService loop one message at a time. QUIC/TLS, multicast and beacon paths are not run.",
         "DESIGN.md section 5 C19"),

 "C04": ("model_checking",
         "bounded-exhaustive input-shape enumeration on the real parsers, mutation phases and query builder with typed round-trip, row-model, row-change-hook and SQL-token-structure oracles",
         "Every string over 24 metacharacters up to length 3 (4 thorough), each as parameter, raw literal and fully escaped literal, plus integer / float / boolean / base64 / JSON / null / alias domains, in every position (mutation parameter and literal, update of another field, filter by parameter / alias / literal, model default added by a model update, search term, after/before value, alias, literal equal to a variable name) for every scalar type x {plain, nullable, default}; each block runs on a fresh in-memory database with decoy and bystander rows. Oracle: typed equality written vs read, equality filter returns exactly the rows of a harness row model, an insert/update touches exactly its own row (SQLite update hook) and reads touch nothing, every statement text the engine runs (sqlite3_trace) keeps the token structure learnt with benign values, no engine error or panic for an accepted value.",
         "Light world only. The literal denotation is the JSON decoding of the token (findings that vanish under the reading 'only \\\" is an escape' are labelled literal-not-decoded). Strings longer than 4 and other code points are not covered.",
         "DESIGN.md section 5 C04"),
 "C09": ("model_checking",
         "explicit-state search on the real batch writer and recompute pass (breadth-first by writes, depth-first over every commit split and recompute placement, SQLite backup snapshots) with an independent recomputation, a fresh-peer differential and a log-to-content injectivity oracle",
         "Every history of up to 3 (4 thorough) local or synchronised writes on 3 rows x 2 rooms x 2 entities x 3 days (create, update same/later day, room move, node and reference deletion, ingested new row / newer version same or other room / deletion record of the stored or of a newer version / reference deletion record, all built by the real phases), every split of the queued messages into batches and every placement of the recomputation go through the real process_batch_write and DailyLogsUpdate::compute; after every batch each (room, entity, day) cell is either marked or equal to the harness's own count and blake3 over the ordered signatures; at every barrier no mark remains, the room log equals the log of a fresh peer that ingested the same content in one synchronisation (history hash included), and different contents have different logs.",
         "Light world only (C03 compares logs between real converged peers). References are not part of content; times within a day are constant.",
         "DESIGN.md section 5 C09"),
 "C15": ("model_checking",
         "explicit-state search over data-model version sequences on the real DataModel, pipeline and service (run-time and start-up paths), differential oracle, each transition applied repeatedly on fresh hash maps and in fresh processes",
         "For every sequence of up to 2 (3 thorough) versions built from 85 edit operators at every applicable position of 3 base models (valid: add namespace/entity/field(s), defaults, nullability, deprecation, indexes, full text; invalid: remove/reorder/retype/rename, missing default, reserved names; mixed valid+invalid), with rows of every entity written under every version: an accepted version keeps every pre-existing value readable under the same name, storage identifiers stable, pairwise distinct and identical over 24 applications on freshly deserialised models and 2 fresh worker processes; a refused version leaves the in-memory model, _configuration, indexes, rows and query answers unchanged; re-applying the current text and restarting on the same folder change nothing. Depth-1 and a stratified depth-2 subset also run on the real service through update_data_model and restart; before every accepted run-time transition the same version is applied with an injected store failure at each of three fault points of the batch that persists it, and nothing may change.",
         "Hash-map iteration orders are sampled by repetition (24 + 2x12 applications), not enumerated. Rows live outside rooms; no synchronisation between peers on different versions.",
         "DESIGN.md section 5 C15"),

 "C13": ("fault_enumeration",
         "exhaustive fault enumeration: every (fault point, hit index, mode) of deterministic workloads run by a child process on the real service, plus real statement failures (commit-hook veto, progress-handler interrupt), state after reopening compared with fault-free prefixes",
         "Six deterministic workloads (nested multi-row mutation, deletion, room mutation, ingested batch, 1/2/5 requests sharing one transaction through the writer gate, recompute) run in a child process on a real GraphDatabaseService; a dry run counts the hits of each fault point of the batch writer, then for every point, every hit index and both modes (process abort; injected statement error where the writer uses the result) - plus a veto of every COMMIT and an SQLITE_INTERRUPT at every k-th progress callback - the child runs again, logging each acknowledgement or failure before continuing; a second process reopens the folder with a normal start. Clauses: the reopened state (id-free canonical form) equals the state after a prefix of whole requests containing every acknowledged one; a request reported failed has no effect; after an injected error the next request succeeds; after restart no mark is pending and the daily log equals a harness recomputation and a real from-scratch pass.",
         "Process death on tmpfs, not power loss: SQLite WAL recovery is trusted. Single faults only. history_hash is excluded from the repair comparison (C09 decides it). Interrupt cases are judged but counted apart because the callback count varies with HashMap order.",
         "DESIGN.md section 5 C13"),

 "C20": ("model_checking",
         "explicit-state breadth-first search on the real lock scheduler actor (probe-keyed, symmetry-reduced, replay-rebuilt states) plus exhaustive schedule enumeration of exit-path events on real connection tasks",
         "Part A: every sequence of request(circuit, ordered room selection, new or same reply channel) / unlock(room) sent by any circuit (holder or not, so double and foreign releases are ordinary events) / receiver drop on the real RoomLockService, limits 1 and 2: full alphabet (3 circuits x 3 rooms, 102 events) to depth 4 (6 thorough), single-room requests to depth 6 (10), and the 2 x 2 scope to its fixpoint (every sequence of any length); states are read with the verification probe, rebuilt by replay on a fresh actor and merged up to renaming of circuits and rooms (self-checked against the unreduced search). Every step: a room held by at most one circuit, held <= limit, available + locked == limit, a grant only for a pending request; from every state the fair closure (holders release everything, repeat) must serve every live request once and leave nothing locked. Part B: orders of exit-path events (ready, answers, partial room list, error answer, events closed, answers closed) on two real LocalPeerService connection tasks sharing the real scheduler: never two pulls of one room in flight, nothing locked when both connections have ended.",
         "Part B quick runs 14 fixed orders twice (thorough: all 5011 orders up to length 6, prefix-cross-checked); the select! race between a closing event channel and a queued grant is driven as its two sequenced orders; query timeouts are not driven. Symmetry reduction is sound because the actor touches identifiers only through Eq/Hash.",
         "DESIGN.md section 5 C20"),
}

NOT_YET = {
}

def main():
    props = [json.loads(l) for l in open('/verif/properties.jsonl')]
    checks = []
    na = []
    for p in props:
        pid = p['id']
        if pid in CHECKS:
            cat, tech, text, note, ref = CHECKS[pid]
            checks.append({
                "property_id": pid,
                "quick_cmd": f"/verif/check {pid} quick",
                "thorough_cmd": f"/verif/check {pid} thorough",
                "evidence_file": f"/verif/evidence/{pid}.json",
                "replay_cmd_template": f"/verif/check {pid} quick --replay {{path}}",
                "engine": "mc",
                "level_claimed": {"category": cat, "text": text, "design_ref": ref},
                "level_note": note,
                "technique": tech,
            })
        else:
            na.append({"property_id": pid, "reason": NOT_YET.get(pid, "check not built yet in this round; no claim is made")})
    m = {
        "version": 1,
        "setup_cmd": "cd /verif/mc && CARGO_NET_OFFLINE=true cargo build --offline",
        "hooks": {
            "guard": "cargo feature `verif` (#[cfg(feature = \"verif\")])",
            "enable": "harness crate /verif/mc depends on discret = { path = \"/repo\", features = [\"verif\"] }",
            "baseline_off_cmd": "cd /repo && cargo test --workspace --no-fail-fast --offline",
            "source_commits": HOOK_COMMITS,
            "add_only": True,
        },
        "engines": [{
            "name": "mc",
            "path": "/verif/mc",
            "serves_properties": sorted(CHECKS.keys()),
            "kind_free_text": "Rust harness executing the real discret code: explicit-state search, schedule/fault enumeration and bounded-exhaustive input enumeration against reference oracles; one sub-command per property, sharded over worker processes",
        }],
        "checks": checks,
        "not_applicable": na,
        "notes": "Checks rebuild the harness against /repo's working tree (feature verif) before running. Exit 0 = held or only KNOWN-FINDING lines, 1 = VIOLATION, 2 = machinery failure (never a verdict).",
    }
    json.dump(m, open('/verif/MANIFEST.json', 'w'), indent=1)
    print("checks:", len(checks), "not_applicable:", len(na))

main()
